"""Models of std / alloc / core library functions (the trusted base, validated natively).

Each model is `fn(I, st, inst, args) -> value | Forks`, may raise PanicExc / NeedFork / Unsupported.
Patterns are globs on the monomorphic instance name printed by rustc.  `aux` tells mirdump which
auxiliary instances to resolve for the stopped callee (see tools/mirdump).
"""
import z3

from .values import *
from .core import Unsupported, PanicExc, Forks, NeedFork, wrap_int

REGISTRY = []  # (pattern, fn, aux)


def model(*patterns, aux="", opt=None):
    """opt: name of an option; the model (and its stop-list entry) is only active when that option is requested"""
    def deco(fn):
        for p in patterns:
            REGISTRY.append((p, fn, aux, opt))
        return fn
    return deco


# instances that are never modelled although a generic pattern would match them (quote!'s repetition adapters have bodies that
# simply delegate to the wrapped value's to_tokens - they must run, not be recorded as opaque nodes)
EXCLUDE = ["<syn::__private::*", "<quote::__private::*", "<&syn::__private::*"]


def stoplist_text(opts=()):
    lines = ["!" + p for p in EXCLUDE]
    for p, fn, aux, opt in REGISTRY:
        if opt is None or opt in opts:
            lines.append(p + (" || " + aux if aux else ""))
    return "\n".join(lines) + "\n"


def all_models(opts=()):
    # optional models first so that they win over generic patterns
    return [(p, fn) for p, fn, aux, opt in REGISTRY if opt is not None and opt in opts] + \
           [(p, fn) for p, fn, aux, opt in REGISTRY if opt is None]


# ---------------------------------------------------------------------------- helpers
def tosym(s):
    if isinstance(s, str):
        return z3.StringVal(s)
    if isinstance(s, ByteSeq):
        if all(isinstance(b, int) for b in s.b):
            return z3.StringVal(bytes(s.b).decode("utf-8", "replace"))
        raise Unsupported("symbolic bytes as z3 string")
    return s


def scat(a, b):
    if isinstance(a, ByteSeq) and all(isinstance(x, int) for x in a.b):
        a = bytes(a.b).decode("utf-8", "surrogateescape")
    if isinstance(b, ByteSeq) and all(isinstance(x, int) for x in b.b):
        b = bytes(b.b).decode("utf-8", "surrogateescape")
    if isinstance(a, str) and isinstance(b, str):
        return a + b
    if isinstance(a, str) and a == "":
        return b
    if isinstance(b, str) and b == "":
        return a
    return z3.Concat(tosym(a), tosym(b))


def seq_eq(I, st, a, b):
    """equality of two string contents -> bool | z3 Bool"""
    if isinstance(a, str) and isinstance(b, str):
        return a == b
    if isinstance(a, ByteSeq) or isinstance(b, ByteSeq):
        ba = a.b if isinstance(a, ByteSeq) else tuple(a.encode())
        bb = b.b if isinstance(b, ByteSeq) else (tuple(b.encode()) if isinstance(b, str) else None)
        if bb is None or not isinstance(ba, tuple):
            raise Unsupported("compare bytes with z3 string")
        if len(ba) != len(bb):
            return False
        cs = []
        for x, y in zip(ba, bb):
            if isinstance(x, int) and isinstance(y, int):
                if x != y:
                    return False
            else:
                cs.append(z3.BitVecVal(x, 8) == y if isinstance(x, int) else (x == (z3.BitVecVal(y, 8) if isinstance(y, int) else y)))
        if not cs:
            return True
        return I.norm(z3.And(cs), None)
    return I.norm(tosym(a) == tosym(b), None)


def str_of(I, st, v):
    """content of a &str / &String / String value"""
    if isinstance(v, StringVal):
        return v.s
    if isinstance(v, Lazy):
        v = I.lazy.expand(I, st, v, None)
        return str_of(I, st, v)
    if isinstance(v, Ptr):
        t = I.read(st, v, expand_scalar=False)
        if isinstance(t, Lazy):
            t = I.lazy.expand(I, st, t, v)
        if isinstance(t, StringVal):
            return t.s
        if isinstance(t, (str, ByteSeq)) or is_sym(t):
            return t
        if isinstance(t, Ptr):
            return str_of(I, st, t)
        if isinstance(t, Agg) and all(isinstance(x, int) for x in t.f):
            if v.meta is not None and isinstance(v.meta, int):
                return bytes(t.f[:v.meta]).decode("utf-8", "surrogateescape")
            return bytes(t.f).decode("utf-8", "surrogateescape")
        if isinstance(t, Agg) and v.meta is not None:
            return ByteSeq(t.f[:v.meta] if isinstance(v.meta, int) else t.f)
        raise Unsupported("str_of target %r" % (t,))
    raise Unsupported("str_of %r" % (v,))


def new_str_ptr(I, st, content):
    """a fresh &str pointing at `content`"""
    c = st.alloc(content)
    return Ptr(c, (), I.str_len(content))


def string_ref(I, st, ptr):
    """&String -> &str into the same storage"""
    v = I.read(st, ptr, expand_scalar=False)
    if isinstance(v, Lazy):
        v = I.lazy.expand(I, st, v, ptr)
    if not isinstance(v, StringVal):
        raise Unsupported("not a String: %r" % (v,))
    return Ptr(ptr.cell, ptr.path + ("S",), I.str_len(v.s))


def get_vec(I, st, v, here=None):
    if isinstance(v, Lazy):
        v = I.lazy.expand(I, st, v, here)
    if isinstance(v, Ptr):
        x = I.read(st, v, expand_scalar=False)
        return get_vec(I, st, x, v)
    if isinstance(v, VecVal):
        return v
    raise Unsupported("not a Vec: %r" % (v,))


def slice_elems(I, st, p):
    """values (not forced) of the elements of a &[T]"""
    t = I.read(st, Ptr(p.cell, p.path), expand_scalar=False)
    if isinstance(t, Lazy):
        t = I.lazy.expand(I, st, t, Ptr(p.cell, p.path))
    if isinstance(t, VecVal):
        t = Agg(None, t.elems)
    if isinstance(t, Agg):
        n = p.meta if isinstance(p.meta, int) else len(t.f)
        return list(t.f[:n])
    if isinstance(t, str):
        return list(t.encode())
    raise Unsupported("slice_elems %r" % (t,))


def mk_option(v=None):
    return Agg(0, ()) if v is None else Agg(1, (v,))


NONE = Agg(0, ())


def force_variant(I, st, v):
    """list of (state, concrete Agg) for a possibly lazy enum value (by value, no home)"""
    if isinstance(v, Agg):
        return [(st, v)]
    if isinstance(v, Lazy):
        allowed = sorted(I.lazy.allowed_variants(I, st, v))
        key = v.name + "#d"
        if key in st.decisions:
            allowed = [st.decisions[key]]
        out = []
        for i, vi in enumerate(allowed):
            s2 = st if i == len(allowed) - 1 else st.fork()
            out.append((s2, I.lazy.concretise_variant(I, s2, v, None, vi)))
        return out
    raise Unsupported("force_variant %r" % (v,))


# ---------------------------------------------------------------------------- panics
def _panic_with_args(I, st, a):
    msgs = render_args(I, st, a)
    if len(msgs) != 1:
        raise Unsupported("forking panic message")
    s2, m = msgs[0]
    raise PanicExc(m)


@model("std::rt::panic_fmt", "core::panicking::panic_fmt")
def m_panic_fmt(I, st, inst, args):
    _panic_with_args(I, st, args[0])


@model("core::panicking::panic_nounwind_fmt", "core::panicking::panic_nounwind", "core::panicking::panic_nounwind_nobacktrace",
       "core::panicking::panic_in_cleanup", "core::panicking::panic_cannot_unwind")
def m_panic_nounwind(I, st, inst, args):
    raise PanicExc("nounwind panic in %s" % inst.name, nounwind=True)


@model("core::panicking::panic", "core::panicking::panic_str*", "core::panicking::panic_explicit", "std::rt::begin_panic::<&str>")
def m_panic_str(I, st, inst, args):
    raise PanicExc(str_of(I, st, args[0]) if args else "explicit panic")


@model("core::panicking::panic_display::<*>", "core::panicking::unreachable_display::<*>")
def m_panic_display(I, st, inst, args):
    raise PanicExc("panic_display")


@model("std::option::expect_failed", "core::option::expect_failed")
def m_expect_failed(I, st, inst, args):
    raise PanicExc(str_of(I, st, args[0]))


@model("std::option::unwrap_failed", "core::option::unwrap_failed")
def m_unwrap_failed(I, st, inst, args):
    raise PanicExc("called `Option::unwrap()` on a `None` value")


@model("std::result::unwrap_failed", "core::result::unwrap_failed")
def m_result_unwrap_failed(I, st, inst, args):
    raise PanicExc(scat(str_of(I, st, args[0]), ": <error>"))


@model("core::panicking::panic_bounds_check", "core::slice::index::slice_index_fail", "core::slice::index::slice_*_index_*_fail",
       "core::str::slice_error_fail", "core::panicking::panic_const::*", "core::panicking::assert_failed_inner",
       "core::panicking::assert_failed::<*>", "core::cell::panic_already_borrowed", "core::cell::panic_already_mutably_borrowed",
       "alloc::raw_vec::handle_error", "alloc::raw_vec::capacity_overflow", "std::alloc::handle_alloc_error",
       "core::panicking::panic_misaligned_pointer_dereference", "core::panicking::panic_null_pointer_dereference",
       "core::str::slice_error_fail_rt", "core::char::methods::encode_utf8_raw::do_panic::runtime")
def m_panic_misc(I, st, inst, args):
    raise PanicExc("panic in %s" % inst.name)


@model("std::thread::panicking")
def m_panicking(I, st, inst, args):
    return st.unwinding


@model("std::process::abort")
def m_abort(I, st, inst, args):
    raise PanicExc("process::abort", nounwind=True)


# ---------------------------------------------------------------------------- fmt
def parse_template(tb):
    """decode the fmt::Arguments template byte-code -> list of ('s', str) | ('a', index|None, flags)"""
    out = []
    i = 0
    nxt = 0
    while True:
        b = tb[i]
        if b == 0:
            break
        if b < 0x80:
            out.append(("s", bytes(tb[i + 1:i + 1 + b]).decode("utf-8", "surrogateescape")))
            i += 1 + b
        elif b == 0x80:
            n = tb[i + 1] | (tb[i + 2] << 8)
            out.append(("s", bytes(tb[i + 3:i + 3 + n]).decode("utf-8", "surrogateescape")))
            i += 3 + n
        elif b & 0xC0 == 0xC0:
            i += 1
            flags = None
            if b & 1:
                flags = tb[i] | tb[i + 1] << 8 | tb[i + 2] << 16 | tb[i + 3] << 24
                i += 4
            if b & 2:
                i += 2
            if b & 4:
                i += 2
            idx = None
            if b & 8:
                idx = tb[i] | tb[i + 1] << 8
                i += 2
            if idx is None:
                idx = nxt
            nxt = idx + 1
            out.append(("a", idx, flags))
        else:
            raise Unsupported("fmt template byte %x" % b)
    return out


@model("std::fmt::Arguments::<'_>::new::<*>", "core::fmt::Arguments::<'_>::new::<*>")
def m_args_new(I, st, inst, args):
    tmpl = I.read(st, args[0])
    if not isinstance(tmpl, Agg):
        raise Unsupported("fmt template %r" % (tmpl,))
    pieces = parse_template(list(tmpl.f))
    arr = I.read(st, args[1])
    avals = list(arr.f) if isinstance(arr, Agg) else []
    out = []
    for p in pieces:
        if p[0] == "s":
            out.append(p)
        else:
            out.append(("a", avals[p[1]], p[2]))
    return Opaque("FmtArgs", tuple(out))


@model("std::fmt::Arguments::<'_>::from_str", "core::fmt::Arguments::<'_>::from_str", "std::fmt::Arguments::<'_>::from_str_nonconst",
       "core::fmt::Arguments::<'_>::from_str_nonconst")
def m_args_from_str(I, st, inst, args):
    return Opaque("FmtArgs", (("s", str_of(I, st, args[0])),))


@model("std::fmt::Arguments::<'_>::as_str", "core::fmt::Arguments::<'_>::as_str", "std::fmt::Arguments::<'_>::as_statically_known_str")
def m_args_as_str(I, st, inst, args):
    a = I.read(st, args[0]) if isinstance(args[0], Ptr) else args[0]
    if isinstance(a, Opaque) and len(a.data) == 1 and a.data[0][0] == "s":
        return mk_option(new_str_ptr(I, st, a.data[0][1]))
    if isinstance(a, Opaque) and len(a.data) == 0:
        return mk_option(new_str_ptr(I, st, ""))
    return NONE


def _mk_arg(kind, aux):
    def f(I, st, inst, args):
        fi = inst.aux.get(aux)
        return Opaque("FmtArg", (kind, args[0], fi, inst.targ(0)))
    return f


for _k, _a, _n in (("display", "display0", "new_display"), ("debug", "debug0", "new_debug")):
    model("core::fmt::rt::Argument::<'_>::%s::<*>" % _n, aux="%s:0" % _k)(_mk_arg(_k, _a))
for _n in ("new_lower_hex", "new_upper_hex", "new_octal", "new_binary", "new_lower_exp", "new_upper_exp", "new_pointer"):
    model("core::fmt::rt::Argument::<'_>::%s::<*>" % _n)(_mk_arg(_n, "none"))


def int_to_str(I, v, t):
    if isinstance(v, bool):
        return "true" if v else "false"
    if isinstance(v, int):
        return str(v)
    if is_sym(v) and z3.is_bv(v):
        if t is not None and t.signed:
            iv = z3.BV2Int(v, True)
            return z3.If(iv < 0, z3.Concat(z3.StringVal("-"), z3.IntToStr(-iv)), z3.IntToStr(iv))
        return z3.IntToStr(z3.BV2Int(v, False))
    raise Unsupported("int_to_str %r" % (v,))


def display_value(I, st, ptr, tid, fmt_inst, kind):
    """render *ptr (of type tid) with Display/Debug -> list of (state, content)"""
    t = I.types[tid]
    # peel references
    while t.kind == "ref":
        ptr = I.read(st, ptr)
        t = I.types[t.elem]
        tid = t.id
    if t.kind == "str":
        c = str_of(I, st, ptr)
        return [(st, c if kind == "display" else scat(scat('"', c), '"'))]
    if t.kind == "adt" and t.adt["name"] in ("std::string::String", "alloc::string::String"):
        c = str_of(I, st, ptr)
        return [(st, c if kind == "display" else scat(scat('"', c), '"'))]
    if t.kind in ("int", "bool"):
        v = I.read(st, ptr)
        return [(st, int_to_str(I, v, t))]
    if t.kind == "char":
        v = I.read(st, ptr)
        if isinstance(v, int):
            return [(st, chr(v))]
        return [(st, z3.StrFromCode(z3.BV2Int(v, False)))]
    if t.kind == "adt" and I.policy is not None:
        r = I.policy.display(I, st, ptr, t, kind)
        if r is not None:
            return r
    if fmt_inst is None:
        if kind == "debug":
            return [(st, "<debug %s>" % t.str)]
        raise Unsupported("no %s instance for %s" % (kind, t))
    # run the real impl with a fresh formatter
    buf = st.alloc("")
    fcell = st.alloc(Opaque("Formatter", buf))
    res = I.call_sync(st, I.prog.insts[fmt_inst], [ptr, Ptr(fcell)])
    out = []
    for s2, r in res:
        if isinstance(r, PanicExc):
            raise Unsupported("panic inside Display impl: %s" % (r.msg,))
        out.append((s2, s2.heap[buf]))
    return out


def render_args(I, st, a):
    """FmtArgs -> list of (state, content)"""
    if isinstance(a, Ptr):
        a = I.read(st, a)
    if not (isinstance(a, Opaque) and a.kind == "FmtArgs"):
        raise Unsupported("render_args %r" % (a,))
    states = [(st, "")]
    for p in a.data:
        nxt = []
        for s, acc in states:
            if p[0] == "s":
                nxt.append((s, scat(acc, p[1])))
            else:
                arg = p[1]
                if not (isinstance(arg, Opaque) and arg.kind == "FmtArg"):
                    raise Unsupported("fmt arg %r" % (arg,))
                kind, ptr, fi, tid = arg.data
                if kind not in ("display", "debug"):
                    raise Unsupported("fmt trait %s" % kind)
                for s2, c in display_value(I, s, ptr, tid, fi, kind):
                    nxt.append((s2, scat(acc, c)))
        states = nxt
    return states


def fmt_append(I, st, fptr, content):
    f = I.read(st, fptr)
    if isinstance(f, Opaque) and f.kind == "Formatter":
        st.heap[f.data] = scat(st.heap[f.data], content)
        return
    if isinstance(f, StringVal):
        I.write(st, fptr, StringVal(scat(f.s, content)))
        return
    raise Unsupported("fmt_append to %r" % (f,))


OK_UNIT = Agg(0, (UNIT,))


@model("std::fmt::Formatter::<'_>::write_str", "core::fmt::Formatter::<'_>::write_str", "std::fmt::Formatter::<'_>::pad",
       "core::fmt::Formatter::<'_>::pad", "<std::fmt::Formatter<'_> as std::fmt::Write>::write_str",
       "<std::string::String as std::fmt::Write>::write_str")
def m_fmt_write_str(I, st, inst, args):
    fmt_append(I, st, args[0], str_of(I, st, args[1]))
    return OK_UNIT


@model("<std::fmt::Formatter<'_> as std::fmt::Write>::write_char", "<std::string::String as std::fmt::Write>::write_char",
       "std::fmt::Formatter::<'_>::write_char")
def m_fmt_write_char(I, st, inst, args):
    c = args[1]
    fmt_append(I, st, args[0], chr(c) if isinstance(c, int) else z3.StrFromCode(z3.BV2Int(c, False)))
    return OK_UNIT


@model("std::fmt::Formatter::<'_>::write_fmt", "core::fmt::Formatter::<'_>::write_fmt", "<std::fmt::Formatter<'_> as std::fmt::Write>::write_fmt",
       "<std::string::String as std::fmt::Write>::write_fmt", "std::fmt::write", "core::fmt::write")
def m_fmt_write_fmt(I, st, inst, args):
    alts = []
    for s2, c in render_args(I, st, args[1]):
        fmt_append(I, s2, args[0], c)
        alts.append((s2, OK_UNIT))
    if len(alts) == 1 and alts[0][0] is st:
        return OK_UNIT
    return Forks(alts)


@model("std::fmt::format", "alloc::fmt::format", "alloc::fmt::format::format_inner", "std::fmt::format::format_inner")
def m_format(I, st, inst, args):
    alts = [(s2, StringVal(c)) for s2, c in render_args(I, st, args[0])]
    if len(alts) == 1 and alts[0][0] is st:
        return alts[0][1]
    return Forks(alts)


@model("<* as std::string::ToString>::to_string", "<* as std::string::SpecToString>::spec_to_string", aux="display:0")
def m_to_string(I, st, inst, args):
    tid = inst.targ(0)
    alts = [(s2, StringVal(c)) for s2, c in display_value(I, st, args[0], tid, inst.aux.get("display0"), "display")]
    if len(alts) == 1 and alts[0][0] is st:
        return alts[0][1]
    return Forks(alts)


@model("<str as std::fmt::Display>::fmt", "<std::string::String as std::fmt::Display>::fmt")
def m_str_display(I, st, inst, args):
    fmt_append(I, st, args[1], str_of(I, st, args[0]))
    return OK_UNIT


@model("<str as std::fmt::Debug>::fmt", "<std::string::String as std::fmt::Debug>::fmt")
def m_str_debug(I, st, inst, args):
    fmt_append(I, st, args[1], scat(scat('"', str_of(I, st, args[0])), '"'))
    return OK_UNIT


@model("core::fmt::num::imp::<impl std::fmt::Display for *>::fmt", "core::fmt::num::<impl std::fmt::Debug for *>::fmt",
       "<bool as std::fmt::Display>::fmt", "core::fmt::num::<impl std::fmt::Display for *>::fmt")
def m_int_display(I, st, inst, args):
    v = I.read(st, args[0])
    tname = inst.name.split(" for ")[-1].split(">")[0] if " for " in inst.name else "bool"
    t = I.prog.find_ty(tname)
    fmt_append(I, st, args[1], int_to_str(I, v, t))
    return OK_UNIT


@model("<char as std::fmt::Display>::fmt")
def m_char_display(I, st, inst, args):
    c = I.read(st, args[0])
    fmt_append(I, st, args[1], chr(c) if isinstance(c, int) else z3.StrFromCode(z3.BV2Int(c, False)))
    return OK_UNIT


@model("std::fmt::Formatter::<'_>::debug_*", "core::fmt::Formatter::<'_>::debug_*", "std::fmt::Formatter::<'_>::alternate")
def m_fmt_debug_helpers(I, st, inst, args):
    if inst.name.endswith("alternate"):
        return False
    if "_finish" in inst.name:
        fmt_append(I, st, args[0], "<debug>")
        return OK_UNIT
    raise Unsupported("debug builder %s" % inst.name)


# ---------------------------------------------------------------------------- String / str
@model("std::string::String::new")
def m_string_new(I, st, inst, args):
    return StringVal("")


@model("std::string::String::with_capacity")
def m_string_with_capacity(I, st, inst, args):
    return StringVal("")


@model("<std::string::String as std::convert::From<&str>>::from", "<str as std::borrow::ToOwned>::to_owned",
       "<std::string::String as std::convert::From<&mut str>>::from", "std::str::<impl str>::to_string",
       "<str as std::string::SpecToString>::spec_to_string", "std::str::<impl str>::to_owned",
       "alloc::str::<impl str>::to_owned", "alloc::str::<impl std::borrow::ToOwned for str>::to_owned",
       "<std::boxed::Box<str> as std::convert::From<&str>>::from", "std::str::<impl str>::into_string",
       "<std::string::String as std::convert::From<std::boxed::Box<str>>>::from",
       "<std::string::String as std::str::FromStr>::from_str_infallible", "std::str::<impl std::borrow::ToOwned for str>::to_owned",
       "alloc::str::<impl std::borrow::ToOwned for str>::to_owned")
def m_string_from_str(I, st, inst, args):
    return StringVal(str_of(I, st, args[0]))


@model("<std::string::String as std::clone::Clone>::clone", "<std::boxed::Box<str> as std::clone::Clone>::clone")
def m_string_clone(I, st, inst, args):
    return StringVal(str_of(I, st, args[0]))


@model("<std::string::String as std::ops::Deref>::deref", "std::string::String::as_str", "<std::string::String as std::convert::AsRef<str>>::as_ref",
       "<std::string::String as std::borrow::Borrow<str>>::borrow", "std::string::String::as_mut_str",
       "<std::string::String as std::ops::DerefMut>::deref_mut", "<std::boxed::Box<str> as std::ops::Deref>::deref",
       "<std::string::String as std::ops::Index<std::ops::RangeFull>>::index",
       "std::str::<impl std::borrow::Borrow<str> for std::string::String>::borrow", "alloc::str::<impl std::borrow::Borrow<str> for std::string::String>::borrow",
       "std::string::<impl std::convert::AsRef<str> for std::string::String>::as_ref")
def m_string_deref(I, st, inst, args):
    return string_ref(I, st, args[0])


@model("std::string::String::push_str")
def m_string_push_str(I, st, inst, args):
    cur = str_of(I, st, args[0])
    I.write(st, args[0], StringVal(scat(cur, str_of(I, st, args[1]))))
    return UNIT


@model("std::string::String::push")
def m_string_push(I, st, inst, args):
    cur = str_of(I, st, args[0])
    c = args[1]
    I.write(st, args[0], StringVal(scat(cur, chr(c) if isinstance(c, int) else z3.StrFromCode(z3.BV2Int(c, False)))))
    return UNIT


@model("std::string::String::len", "std::str::<impl str>::len", "core::str::<impl str>::len")
def m_string_len(I, st, inst, args):
    return I.str_len(str_of(I, st, args[0]))


@model("std::string::String::is_empty", "std::str::<impl str>::is_empty", "core::str::<impl str>::is_empty")
def m_string_is_empty(I, st, inst, args):
    return seq_eq(I, st, str_of(I, st, args[0]), "")


@model("std::string::String::into_boxed_str", "std::string::String::into_string")
def m_string_ident(I, st, inst, args):
    return args[0] if isinstance(args[0], StringVal) else StringVal(str_of(I, st, args[0]))


@model("<str as std::cmp::PartialEq>::eq", "<std::string::String as std::cmp::PartialEq>::eq",
       "<std::string::String as std::cmp::PartialEq<str>>::eq", "<std::string::String as std::cmp::PartialEq<&str>>::eq",
       "<str as std::cmp::PartialEq<std::string::String>>::eq", "<&str as std::cmp::PartialEq<std::string::String>>::eq",
       "core::str::traits::<impl std::cmp::PartialEq for str>::eq", "alloc::string::<impl std::cmp::PartialEq<str> for std::string::String>::eq",
       "alloc::string::<impl std::cmp::PartialEq<&str> for std::string::String>::eq",
       "alloc::string::<impl std::cmp::PartialEq<std::string::String> for str>::eq",
       "alloc::string::<impl std::cmp::PartialEq<std::string::String> for &str>::eq",
       "<std::boxed::Box<str> as std::cmp::PartialEq>::eq")
def m_str_eq(I, st, inst, args):
    return seq_eq(I, st, str_of(I, st, args[0]), str_of(I, st, args[1]))


@model("<str as std::cmp::PartialEq>::ne", "<std::string::String as std::cmp::PartialEq>::ne",
       "alloc::string::<impl std::cmp::PartialEq<&str> for std::string::String>::ne",
       "alloc::string::<impl std::cmp::PartialEq<str> for std::string::String>::ne")
def m_str_ne(I, st, inst, args):
    r = seq_eq(I, st, str_of(I, st, args[0]), str_of(I, st, args[1]))
    return (not r) if isinstance(r, bool) else I.norm(z3.Not(r), None)


@model("std::str::<impl str>::as_bytes", "core::str::<impl str>::as_bytes", "std::string::String::as_bytes")
def m_as_bytes(I, st, inst, args):
    p = args[0]
    c = str_of(I, st, p)
    if isinstance(c, str):
        cell = st.alloc(Agg(None, list(c.encode("utf-8", "surrogateescape"))))
        return Ptr(cell, (), len(c.encode("utf-8", "surrogateescape")))
    if isinstance(c, ByteSeq):
        cell = st.alloc(Agg(None, c.b))
        return Ptr(cell, (), len(c.b))
    raise Unsupported("as_bytes of z3 string")


@model("std::str::<impl str>::starts_with::<&str>", "core::str::<impl str>::starts_with::<&str>")
def m_starts_with(I, st, inst, args):
    a, b = str_of(I, st, args[0]), str_of(I, st, args[1])
    if isinstance(a, str) and isinstance(b, str):
        return a.startswith(b)
    return I.norm(z3.PrefixOf(tosym(b), tosym(a)), None)


@model("std::str::<impl str>::ends_with::<&str>", "core::str::<impl str>::ends_with::<&str>")
def m_ends_with(I, st, inst, args):
    a, b = str_of(I, st, args[0]), str_of(I, st, args[1])
    if isinstance(a, str) and isinstance(b, str):
        return a.endswith(b)
    return I.norm(z3.SuffixOf(tosym(b), tosym(a)), None)


@model("std::str::<impl str>::trim", "core::str::<impl str>::trim", "std::str::<impl str>::trim_start", "core::str::<impl str>::trim_start",
       "std::str::<impl str>::trim_end", "core::str::<impl str>::trim_end")
def m_trim(I, st, inst, args):
    a = str_of(I, st, args[0])
    front = not inst.name.endswith("trim_end")
    back = not inst.name.endswith("trim_start")
    if isinstance(a, str):
        r = a.strip() if (front and back) else (a.lstrip() if front else a.rstrip())
        return new_str_ptr(I, st, r)
    if isinstance(a, ByteSeq):
        # symbolic ASCII bytes: fork on how many white-space bytes there are at each end
        def ws(b):
            if isinstance(b, int):
                return b in (9, 10, 11, 12, 13, 32)
            return z3.Or(b == 32, z3.And(z3.UGE(b, 9), z3.ULE(b, 13)))
        p = args[0]
        n = len(a.b)
        results = []
        work = [(st, 0)]
        fronts = []
        while work:
            s, i = work.pop()
            if not front or i == n:
                fronts.append((s, i))
                continue
            for s2, bv in _bool_alts(I, s, ws(a.b[i])):
                (work if bv else fronts).append((s2, i + 1) if bv else (s2, i))
        for s, i in fronts:
            work = [(s, n)]
            while work:
                s2, j = work.pop()
                if not back or j == i:
                    results.append((s2, i, j))
                    continue
                for s3, bv in _bool_alts(I, s2, ws(a.b[j - 1])):
                    if bv:
                        work.append((s3, j - 1))
                    else:
                        results.append((s3, i, j))
        base = Ptr(p.cell, p.path)
        return Forks([(s, I.index_sub(base, i, j)) for s, i, j in results])
    raise Unsupported("trim of a z3 string")


@model("std::str::<impl str>::trim_start_matches::<&str>", "core::str::<impl str>::trim_start_matches::<&str>")
def m_trim_start_matches(I, st, inst, args):
    a, b = str_of(I, st, args[0]), str_of(I, st, args[1])
    if isinstance(a, str) and isinstance(b, str):
        while b and a.startswith(b):
            a = a[len(b):]
        return new_str_ptr(I, st, a)
    if isinstance(b, str) and b and not isinstance(a, (str, ByteSeq)):
        # symbolic text, constant prefix: strip 0, 1 or 2 repetitions (three or more are assumed away: a recorded bound)
        from .lazy import constrain_once
        w = tosym(a)
        n = len(b)
        constrain_once(st, "trim3:%s" % w.sexpr(), z3.Not(z3.PrefixOf(z3.StringVal(b * 3), w)))
        alts = []
        for k in (0, 1, 2):
            rest = z3.SubString(w, k * n, z3.Length(w) - k * n) if k else w
            cond = z3.And(z3.PrefixOf(z3.StringVal(b * k), w), z3.Not(z3.PrefixOf(z3.StringVal(b), rest))) if k else z3.Not(z3.PrefixOf(z3.StringVal(b), w))
            if I.feasible(st, cond):
                s2 = st.fork()
                I.add_pc(s2, cond)
                alts.append((s2, new_str_ptr(I, s2, z3.simplify(rest))))
        return Forks(alts)
    raise Unsupported("trim_start_matches of symbolic string")


@model("alloc::str::join_generic_copy::<*>", "std::slice::<impl [*]>::join::<&str>", "alloc::slice::<impl [*]>::join::<&str>",
       "alloc::str::<impl std::slice::Join<&str> for [*]>::join")
def m_join(I, st, inst, args):
    elems = slice_elems(I, st, args[0])
    sep = str_of(I, st, args[1]) if len(args) > 1 else ""
    base = Ptr(args[0].cell, args[0].path)
    out = ""
    for i, e in enumerate(elems):
        if i:
            out = scat(out, sep)
        if isinstance(e, (Lazy, StringVal)):
            out = scat(out, str_of(I, st, Ptr(base.cell, base.path + (i,))))
        elif isinstance(e, Ptr):
            out = scat(out, str_of(I, st, e))
        else:
            raise Unsupported("join element %r" % (e,))
    if "join_generic_copy" in inst.name:
        raise Unsupported("join_generic_copy")
    return StringVal(out)


# ---------------------------------------------------------------------------- Vec
@model("std::vec::Vec::<*>::new", "std::vec::Vec::<*>::with_capacity", "std::vec::Vec::<*>::new_in", "std::vec::Vec::<*>::with_capacity_in",
       "<std::vec::Vec<*> as std::default::Default>::default")
def m_vec_new(I, st, inst, args):
    return VecVal(())


@model("std::vec::Vec::<*>::push", "std::vec::Vec::<*>::push_mut")
def m_vec_push(I, st, inst, args):
    v = get_vec(I, st, args[0])
    I.write(st, args[0], VecVal(v.elems + (args[1],)))
    if inst.name.endswith("push_mut"):
        return Ptr(args[0].cell, args[0].path + ("e", len(v.elems)))
    return UNIT


@model("std::vec::Vec::<*>::pop")
def m_vec_pop(I, st, inst, args):
    v = get_vec(I, st, args[0])
    if not v.elems:
        return NONE
    I.write(st, args[0], VecVal(v.elems[:-1]))
    return mk_option(v.elems[-1])


@model("std::vec::Vec::<*>::len")
def m_vec_len(I, st, inst, args):
    return len(get_vec(I, st, args[0]).elems)


@model("std::vec::Vec::<*>::is_empty")
def m_vec_is_empty(I, st, inst, args):
    return len(get_vec(I, st, args[0]).elems) == 0


@model("std::vec::Vec::<*>::insert")
def m_vec_insert(I, st, inst, args):
    v = get_vec(I, st, args[0])
    i = I.concrete_int(st, args[1])
    if i > len(v.elems):
        raise PanicExc("insertion index (is %d) should be <= len (is %d)" % (i, len(v.elems)))
    I.write(st, args[0], VecVal(v.elems[:i] + (args[2],) + v.elems[i:]))
    return UNIT


@model("std::vec::Vec::<*>::remove")
def m_vec_remove(I, st, inst, args):
    v = get_vec(I, st, args[0])
    i = I.concrete_int(st, args[1])
    if i >= len(v.elems):
        raise PanicExc("removal index (is %d) should be < len (is %d)" % (i, len(v.elems)))
    I.write(st, args[0], VecVal(v.elems[:i] + v.elems[i + 1:]))
    return v.elems[i]


@model("std::vec::Vec::<*>::clear")
def m_vec_clear(I, st, inst, args):
    get_vec(I, st, args[0])
    I.write(st, args[0], VecVal(()))
    return UNIT


@model("std::vec::Vec::<*>::truncate")
def m_vec_truncate(I, st, inst, args):
    v = get_vec(I, st, args[0])
    n = I.concrete_int(st, args[1])
    I.write(st, args[0], VecVal(v.elems[:n]))
    return UNIT


@model("std::vec::Vec::<*>::reserve", "std::vec::Vec::<*>::reserve_exact", "std::vec::Vec::<*>::shrink_to_fit")
def m_vec_reserve(I, st, inst, args):
    return UNIT


@model("std::vec::Vec::<*>::append")
def m_vec_append(I, st, inst, args):
    a = get_vec(I, st, args[0])
    b = get_vec(I, st, args[1])
    I.write(st, args[0], VecVal(a.elems + b.elems))
    I.write(st, args[1], VecVal(()))
    return UNIT


@model("<std::vec::Vec<*> as std::ops::Deref>::deref", "<std::vec::Vec<*> as std::ops::DerefMut>::deref_mut", "std::vec::Vec::<*>::as_slice",
       "std::vec::Vec::<*>::as_mut_slice", "<std::vec::Vec<*> as std::convert::AsRef<[*]>>::as_ref",
       "<std::vec::Vec<*> as std::borrow::Borrow<[*]>>::borrow")
def m_vec_deref(I, st, inst, args):
    v = get_vec(I, st, args[0])
    return Ptr(args[0].cell, args[0].path + ("e",), len(v.elems))


@model("<std::vec::Vec<*> as std::ops::Index<usize>>::index", "<std::vec::Vec<*> as std::ops::IndexMut<usize>>::index_mut")
def m_vec_index(I, st, inst, args):
    v = get_vec(I, st, args[0])
    i = I.concrete_int(st, args[1])
    if i >= len(v.elems):
        raise PanicExc("index out of bounds: the len is %d but the index is %d" % (len(v.elems), i))
    return Ptr(args[0].cell, args[0].path + ("e", i))


@model("<std::vec::Vec<*> as std::iter::IntoIterator>::into_iter")
def m_vec_into_iter(I, st, inst, args):
    v = get_vec(I, st, args[0])
    return Opaque("VecIntoIter", (v.elems, 0))


@model("std::array::iter::<impl std::iter::IntoIterator for [*]>::into_iter", "core::array::iter::<impl std::iter::IntoIterator for [*]>::into_iter")
def m_array_into_iter(I, st, inst, args):
    """by-value iteration over an array: the same cursor as vec::IntoIter (std's body goes through MaybeUninit transmutes)"""
    v = args[0]
    if isinstance(v, Lazy):
        v = I.lazy.expand(I, st, v, None)
    if not isinstance(v, Agg):
        raise Unsupported("array into_iter of %r" % (v,))
    return Opaque("VecIntoIter", (tuple(v.f), 0))


@model("<std::vec::IntoIter<*> as std::iter::Iterator>::next", "<std::array::IntoIter<*> as std::iter::Iterator>::next", "<std::collections::hash_set::Iter<*> as std::iter::Iterator>::next",
       "<std::collections::hash_set::IntoIter<*> as std::iter::Iterator>::next", "<std::collections::btree_set::Iter<*> as std::iter::Iterator>::next")
def m_vec_into_iter_next(I, st, inst, args):
    it = I.read(st, args[0])
    elems, i = it.data
    if i >= len(elems):
        return NONE
    I.write(st, args[0], Opaque("VecIntoIter", (elems, i + 1)))
    return mk_option(elems[i])


@model("<std::vec::IntoIter<*> as std::iter::DoubleEndedIterator>::next_back")
def m_vec_into_iter_next_back(I, st, inst, args):
    it = I.read(st, args[0])
    elems, i = it.data
    if i >= len(elems):
        return NONE
    I.write(st, args[0], Opaque("VecIntoIter", (elems[:-1], i)))
    return mk_option(elems[-1])


@model("<std::vec::IntoIter<*> as std::iter::Iterator>::size_hint", "<std::collections::hash_set::Iter<*> as std::iter::Iterator>::size_hint",
       "<std::collections::hash_set::IntoIter<*> as std::iter::Iterator>::size_hint")
def m_vec_into_iter_size_hint(I, st, inst, args):
    it = I.read(st, args[0])
    n = len(it.data[0]) - it.data[1]
    return Agg(None, (n, mk_option(n)))


@model("<std::vec::IntoIter<*> as std::iter::ExactSizeIterator>::len")
def m_vec_into_iter_len(I, st, inst, args):
    it = I.read(st, args[0])
    return len(it.data[0]) - it.data[1]


@model("std::vec::IntoIter::<*>::as_slice")
def m_vec_into_iter_as_slice(I, st, inst, args):
    it = I.read(st, args[0])
    c = st.alloc(Agg(None, it.data[0][it.data[1]:]))
    return Ptr(c, (), len(it.data[0]) - it.data[1])


def drive_iter(I, st, next_inst, itv):
    """exhaust an iterator value: returns list of (state, [items]) (or (state, PanicExc))"""
    if isinstance(itv, Opaque) and itv.kind == "VecIntoIter":
        return [(st, list(itv.data[0][itv.data[1]:]))]
    if isinstance(itv, VecVal):
        return [(st, list(itv.elems))]
    if next_inst is None:
        raise Unsupported("cannot drive iterator %r" % (itv,))
    ni = I.prog.insts[next_inst]
    done = []
    cell = st.alloc(itv)
    work = [(st, [])]
    while work:
        s, acc = work.pop()
        for s2, r in I.call_sync(s, ni, [Ptr(cell)]):
            if isinstance(r, PanicExc):
                done.append((s2, r))
                continue
            for s3, rv in force_variant(I, s2, r):
                if rv.v == 0:
                    done.append((s3, acc))
                else:
                    if len(acc) > 64:
                        raise Unsupported("iterator too long")
                    work.append((s3, acc + [rv.f[0]]))
    return done


def _into_iter_value(I, st, inst, v, idx):
    """apply IntoIterator::into_iter (aux) to v when it is not already a known cursor"""
    if isinstance(v, Lazy):
        v = I.lazy.expand(I, st, v, None)
    if isinstance(v, (VecVal,)) or (isinstance(v, Opaque) and v.kind == "VecIntoIter"):
        return [(st, v)]
    ii = inst.aux.get("into_iter%d" % idx)
    if ii is None:
        return [(st, v)]
    return I.call_sync(st, I.prog.insts[ii], [v])


@model("<std::vec::Vec<*> as std::iter::Extend<*>>::extend::<*>", aux="into_iter:2,next:2")
def m_vec_extend(I, st, inst, args):
    alts = []
    base = get_vec(I, st, args[0])
    for s1, itv in _into_iter_value(I, st, inst, args[1], 2):
        if isinstance(itv, PanicExc):
            alts.append((s1, itv))
            continue
        nxt = inst.aux.get("next2")
        if nxt is None and not isinstance(itv, (VecVal, Opaque)) and inst.aux.get("into_iter2") is not None:
            # the argument is IntoIterator but not itself an iterator: look the iterator type's `next` up by name
            ii = I.prog.insts[inst.aux["into_iter2"]]
            rt = ii.sig[-1] if ii.sig else (ii.local_tys[0] if getattr(ii, "local_tys", None) else None)
            it_t = I.types.get(rt)
            cand = I.prog.by_name.get("<%s as std::iter::Iterator>::next" % (it_t.str if it_t is not None else "?"))
            if cand is not None:
                nxt = cand.id if hasattr(cand, "id") else cand
        if nxt is None and not isinstance(itv, (VecVal, Opaque)):
            raise Unsupported("extend: cannot iterate %r" % (itv,))
        if nxt is None or isinstance(itv, VecVal) or (isinstance(itv, Opaque) and itv.kind == "VecIntoIter"):
            res = drive_iter(I, s1, None, itv)
        else:
            # iterator type = <I as IntoIterator>::IntoIter; resolve next from the into_iter result type lazily
            res = drive_iter(I, s1, nxt, itv)
        for s2, items in res:
            if isinstance(items, PanicExc):
                alts.append((s2, items))
                continue
            cur = get_vec(I, s2, args[0])
            I.write(s2, args[0], VecVal(cur.elems + tuple(items)))
            alts.append((s2, UNIT))
    return Forks(alts)


@model("<std::vec::Vec<*> as std::iter::FromIterator<*>>::from_iter::<*>", aux="into_iter:1,next:1")
def m_vec_from_iter(I, st, inst, args):
    alts = []
    for s1, itv in _into_iter_value(I, st, inst, args[0], 1):
        if isinstance(itv, PanicExc):
            alts.append((s1, itv))
            continue
        for s2, items in drive_iter(I, s1, inst.aux.get("next1"), itv):
            if isinstance(items, PanicExc):
                alts.append((s2, items))
            else:
                alts.append((s2, VecVal(items)))
    return Forks(alts)


@model("<std::vec::Vec<*> as std::clone::Clone>::clone", aux="clone:0")
def m_vec_clone(I, st, inst, args):
    v = get_vec(I, st, args[0])
    ci = inst.aux.get("clone0")
    et = I.types[inst.targ(0)]
    if et.kind in ("int", "bool", "char", "ref"):
        return VecVal(v.elems)
    if ci is None:
        raise Unsupported("Vec::clone without element clone")
    cinst = I.prog.insts[ci]
    states = [(st, [])]
    for i in range(len(v.elems)):
        nxt = []
        for s, acc in states:
            for s2, r in I.call_sync(s, cinst, [Ptr(args[0].cell, args[0].path + ("e", i))]):
                if isinstance(r, PanicExc):
                    raise Unsupported("panic in clone")
                nxt.append((s2, acc + [r]))
        states = nxt
    return Forks([(s, VecVal(acc)) for s, acc in states])


@model("alloc::boxed::box_assume_init_into_vec_unsafe::<*>", "std::boxed::box_assume_init_into_vec_unsafe::<*>")
def m_box_into_vec(I, st, inst, args):
    """Box<MaybeUninit<[T; N]>> -> Vec<T> (the lowering of vec![a, b, c])"""
    p = I.unwrap_ptr(args[0])
    v = I.read(st, p, expand_scalar=False)
    t = I.types[I.pointee(inst.sig[0])] if inst.sig else None
    while t is not None and t.kind != "array":
        if t.kind != "adt":
            raise Unsupported("box_into_vec through %s" % t)
        fs = t.variant_fields(0)
        idx = 0
        if t.is_union:
            idx = [i for i, f in enumerate(fs) if f["name"] == "value"][0]
        else:
            # the single non-zero-sized field
            cand = [i for i, f in enumerate(fs) if I.types[f["ty"]].kind in ("adt", "array") and I.size_of(I.types[f["ty"]]) > 0]
            idx = cand[0] if cand else 0
        if not isinstance(v, Agg) or idx >= len(v.f):
            raise Unsupported("box_into_vec value %r" % (v,))
        v = v.f[idx]
        t = I.types[fs[idx]["ty"]]
    if not isinstance(v, Agg):
        raise Unsupported("box_into_vec array %r" % (v,))
    return VecVal(v.f)


@model("std::slice::<impl [*]>::into_vec::<*>", "alloc::slice::<impl [*]>::into_vec::<*>")
def m_slice_into_vec(I, st, inst, args):
    p = I.unwrap_ptr(args[0])
    v = I.read(st, p, expand_scalar=False)
    if isinstance(v, Agg):
        return VecVal(v.f)
    if isinstance(v, VecVal):
        return v
    raise Unsupported("into_vec of %r" % (v,))


@model("std::boxed::Box::<*>::new_uninit", "std::boxed::Box::<*>::new_uninit_in", "alloc::boxed::Box::<*>::new_uninit")
def m_box_new_uninit(I, st, inst, args):
    c = st.alloc(UNINIT)
    return make_box(I, inst, Ptr(c))


def make_box(I, inst, ptr, ret_ty=None):
    if ret_ty is None:
        sig = I.types[inst.ty]
        ret_ty = None
    # the return type of the instance: look it up from a body-less signature when available
    rt = I.box_ret_ty(inst)
    return I.wrap_like(I.types[rt], ptr)


@model("std::boxed::Box::<*>::new", "alloc::boxed::Box::<*>::new", "alloc::alloc::exchange_malloc")
def m_box_new(I, st, inst, args):
    if inst.name.endswith("exchange_malloc"):
        return Ptr(st.alloc(UNINIT))
    c = st.alloc(args[0])
    return make_box(I, inst, Ptr(c))


@model("std::slice::<impl [*]>::len", "core::slice::<impl [*]>::len")
def m_slice_len(I, st, inst, args):
    p = args[0]
    if isinstance(p.meta, int):
        return p.meta
    return len(slice_elems(I, st, p))


@model("std::slice::<impl [*]>::is_empty", "core::slice::<impl [*]>::is_empty")
def m_slice_is_empty(I, st, inst, args):
    return m_slice_len(I, st, inst, args) == 0


@model("std::slice::<impl [*]>::first", "core::slice::<impl [*]>::first", "std::slice::<impl [*]>::first_mut")
def m_slice_first(I, st, inst, args):
    p = args[0]
    n = m_slice_len(I, st, inst, args)
    if n == 0:
        return NONE
    return mk_option(Ptr(p.cell, p.path + (0,)))


@model("std::slice::<impl [*]>::last", "core::slice::<impl [*]>::last", "std::slice::<impl [*]>::last_mut")
def m_slice_last(I, st, inst, args):
    p = args[0]
    n = m_slice_len(I, st, inst, args)
    if n == 0:
        return NONE
    return mk_option(Ptr(p.cell, p.path + (n - 1,)))


@model("std::slice::<impl [*]>::get::<usize>", "core::slice::<impl [*]>::get::<usize>")
def m_slice_get(I, st, inst, args):
    p = args[0]
    n = m_slice_len(I, st, inst, [p])
    i = I.concrete_int(st, args[1])
    if i >= n:
        return NONE
    return mk_option(Ptr(p.cell, p.path + (i,)))


@model("std::slice::<impl [*]>::to_vec", "alloc::slice::<impl [*]>::to_vec", "std::slice::<impl [*]>::to_vec_in::<*>",
       "<[*] as std::borrow::ToOwned>::to_owned", aux="clone:0")
def m_slice_to_vec(I, st, inst, args):
    p = args[0]
    elems = slice_elems(I, st, p)
    ci = inst.aux.get("clone0")
    et = I.types[inst.targ(0)] if inst.targ(0) is not None else None
    if et is not None and et.kind in ("int", "bool", "char", "ref"):
        return VecVal(elems)
    if ci is None:
        raise Unsupported("to_vec without clone")
    cinst = I.prog.insts[ci]
    states = [(st, [])]
    for i in range(len(elems)):
        nxt = []
        for s, acc in states:
            for s2, r in I.call_sync(s, cinst, [Ptr(p.cell, p.path + (i,))]):
                if isinstance(r, PanicExc):
                    raise Unsupported("panic in clone")
                nxt.append((s2, acc + [r]))
        states = nxt
    return Forks([(s, VecVal(acc)) for s, acc in states])


# ---------------------------------------------------------------------------- mem / misc
@model("std::mem::forget::<*>", "core::mem::forget::<*>")
def m_mem_forget(I, st, inst, args):
    return UNIT


@model("std::convert::identity::<*>", "core::convert::identity::<*>")
def m_identity(I, st, inst, args):
    return args[0]


@model("std::alloc::dealloc", "alloc::alloc::dealloc", "alloc::alloc::__rust_dealloc", "<std::alloc::Global as std::alloc::Allocator>::deallocate",
       "alloc::alloc::box_free::<*>")
def m_dealloc(I, st, inst, args):
    return UNIT


@model("std::ptr::drop_in_place::<std::vec::Vec<*>>", "std::ptr::drop_in_place::<std::string::String>",
       "std::ptr::drop_in_place::<std::vec::IntoIter<*>>")
def m_drop_vec(I, st, inst, args):
    tid = inst.targ(0)
    if not I.drop_is_significant(tid):
        return UNIT
    raise Unsupported("drop of container with significant elements: %s" % inst.name)


@model("std::hint::unreachable_unchecked", "core::hint::unreachable_unchecked")
def m_unreachable_unchecked(I, st, inst, args):
    raise Unsupported("unreachable_unchecked reached")


@model("std::hint::assert_unchecked", "core::hint::assert_unchecked")
def m_assert_unchecked(I, st, inst, args):
    return UNIT


# ---------------------------------------------------------------------------- slice iterators over modelled vectors
def make_slice_iter(I, ret_tid, base, n):
    """build a real core::slice::Iter / IterMut struct value over the n elements located at `base` (sequence ptr)"""
    t = I.types[ret_tid]
    fs = t.variant_fields(0)
    out = []
    first = Ptr(base.cell, base.path + (0,))
    end = Ptr(base.cell, base.path + (n,))
    for f in fs:
        ft = I.types[f["ty"]]
        if f["name"] == "ptr":
            out.append(I.wrap_like(ft, first))
        elif f["name"] == "end_or_len":
            out.append(end)
        else:
            out.append(UNIT)
    return Agg(None, out)


@model("<&std::vec::Vec<*> as std::iter::IntoIterator>::into_iter", "<&mut std::vec::Vec<*> as std::iter::IntoIterator>::into_iter",
       "std::slice::<impl [*]>::iter", "core::slice::<impl [*]>::iter", "core::slice::<impl [*]>::iter_mut", "std::slice::<impl [*]>::iter_mut",
       "<&[*] as std::iter::IntoIterator>::into_iter", "<&mut [*] as std::iter::IntoIterator>::into_iter",
       "core::slice::iter::<impl std::iter::IntoIterator for &[*]>::into_iter", "core::slice::iter::<impl std::iter::IntoIterator for &mut [*]>::into_iter")
def m_ref_vec_into_iter(I, st, inst, args):
    p = args[0]
    t = I.read(st, p, expand_scalar=False)
    if isinstance(t, Lazy):
        t = I.lazy.expand(I, st, t, p)
    if isinstance(t, VecVal):
        return make_slice_iter(I, inst.sig[-1], Ptr(p.cell, p.path + ("e",)), len(t.elems))
    if isinstance(t, Agg):
        n = p.meta if isinstance(p.meta, int) else len(t.f)
        return make_slice_iter(I, inst.sig[-1], Ptr(p.cell, p.path), n)
    raise Unsupported("iter over %r" % (t,))


@model("<std::boxed::Box<*> as std::ops::Drop>::drop", "<std::rc::Rc<*> as std::ops::Drop>::drop", "<std::sync::Arc<*> as std::ops::Drop>::drop")
def m_box_drop(I, st, inst, args):
    return UNIT


@model("<std::vec::Vec<*> as std::ops::Index<std::ops::RangeFull>>::index", "<std::vec::Vec<*> as std::ops::IndexMut<std::ops::RangeFull>>::index_mut")
def m_vec_index_full(I, st, inst, args):
    v = get_vec(I, st, args[0])
    return Ptr(args[0].cell, args[0].path + ("e",), len(v.elems))


@model("<std::num::ParseIntError as std::fmt::Display>::fmt")
def m_parse_int_error_display(I, st, inst, args):
    e = I.read(st, args[0], expand_scalar=False)
    if isinstance(e, Lazy):
        e = I.lazy.expand(I, st, e, args[0])
    k = e.f[0] if isinstance(e, Agg) else None
    if isinstance(k, Lazy):
        for s2, kv in force_variant(I, st, k):
            k = kv
            break
    msgs = ["cannot parse integer from empty string", "invalid digit found in string", "number too large to fit in target type",
            "number too small to fit in target type", "number would be zero for non-zero type"]
    if isinstance(k, Agg) and k.v is not None and k.v < len(msgs):
        fmt_append(I, st, args[1], msgs[k.v])
        return OK_UNIT
    raise Unsupported("ParseIntError kind %r" % (k,))


@model("<bool as std::str::FromStr>::from_str", opt="strbool")
def m_bool_from_str(I, st, inst, args):
    """bool::from_str on a string kept as a z3 string (derive-time option values): "true" / "false" / anything else"""
    sv = str_of(I, st, args[0])
    alts = []
    for s1, is_t in _bool_alts(I, st, seq_eq(I, st, sv, "true")):
        if is_t:
            alts.append((s1, Agg(0, (True,))))
            continue
        for s2, is_f in _bool_alts(I, s1, seq_eq(I, s1, sv, "false")):
            alts.append((s2, Agg(0, (False,)) if is_f else Agg(1, (Agg(None, ()),))))
    return Forks(alts)


@model("<std::num::NonZero<*> as std::str::FromStr>::from_str")
def m_nonzero_from_str(I, st, inst, args):
    """NonZero::<T>::from_str = T::from_str_radix(s, 10) then reject zero (body not available as MIR in libcore)"""
    inner = inst.name.split("NonZero<", 1)[1].split(">", 1)[0]
    cal = I.prog.by_name.get("<%s as std::str::FromStr>::from_str" % inner) or \
        I.prog.by_name.get("core::num::<impl std::str::FromStr for %s>::from_str" % inner)
    if cal is None:
        raise Unsupported("no from_str instance for %s" % inner)
    rt = I.types[inst.sig[-1]]          # Result<NonZero<T>, ParseIntError>
    err_t = I.types[rt.adt["variants"][1]["fields"][0]["ty"]]
    kind_t = I.types[err_t.variant_fields(0)[0]["ty"]]
    zero_idx = [i for i, v in enumerate(kind_t.adt["variants"]) if v["name"] == "Zero"][0]
    alts = []
    for s2, r in I.call_sync(st, cal, [args[0]]):
        if isinstance(r, PanicExc):
            alts.append((s2, r))
            continue
        if r.v == 1:
            alts.append((s2, r))
            continue
        v = r.f[0]
        zero_err = Agg(1, (Agg(None, (Agg(zero_idx, ()),)),))
        okval = Agg(0, (Agg(None, (Agg(None, (v,)),)),))
        if is_sym(v):
            isz = I.norm(v == z3.BitVecVal(0, v.size()), None)
            if isz is True:
                alts.append((s2, zero_err))
            elif isz is False:
                alts.append((s2, okval))
            else:
                fz = I.feasible(s2, isz)
                fnz = I.feasible(s2, z3.Not(isz))
                if fz and fnz:
                    s3 = s2.fork()
                    I.add_pc(s3, isz)
                    alts.append((s3, zero_err))
                    I.add_pc(s2, z3.Not(isz))
                    alts.append((s2, okval))
                elif fz:
                    alts.append((s2, zero_err))
                else:
                    alts.append((s2, okval))
        else:
            alts.append((s2, zero_err if v == 0 else okval))
    return Forks(alts)


# ---------------------------------------------------------------------------- hash / ordered maps and sets (association lists)
def _bool_alts(I, st, cond):
    """fork on a (possibly symbolic) boolean: list of (state, bool)"""
    if isinstance(cond, bool):
        return [(st, cond)]
    t = I.feasible(st, cond)
    f = I.feasible(st, z3.Not(cond))
    out = []
    if t and f:
        s2 = st.fork()
        I.add_pc(s2, cond)
        out.append((s2, True))
        I.add_pc(st, z3.Not(cond))
        out.append((st, False))
    elif t:
        out.append((st, True))
    else:
        out.append((st, False))
    return out


def _key_eq(I, st, inst, a, b):
    """equality of two keys (values) -> list of (state, bool | z3 Bool)"""
    # keys that are thin references (`HashSet<&Ident>`, looked up through `Borrow<Q>`): simple referents compare directly,
    # otherwise the bare value is lifted to a reference so that both sides have the key type the equality instance expects
    def peek(p):
        v = I.read(st, p, expand_scalar=False)
        if isinstance(v, Lazy):
            v = I.lazy.expand(I, st, v, None)
        return v
    if isinstance(a, Ptr) and a.meta is None:
        va = peek(a)
        if isinstance(va, (Opaque, StringVal)):
            a = va
    if isinstance(b, Ptr) and b.meta is None:
        vb = peek(b)
        if isinstance(vb, (Opaque, StringVal)):
            b = vb
    if isinstance(a, Ptr) and a.meta is None and not isinstance(b, Ptr):
        b = Ptr(st.alloc(b))
    elif isinstance(b, Ptr) and b.meta is None and not isinstance(a, Ptr):
        a = Ptr(st.alloc(a))
    if isinstance(a, StringVal) and isinstance(b, StringVal):
        return [(st, seq_eq(I, st, a.s, b.s))]
    if isinstance(a, Opaque) and isinstance(b, Opaque) and a.kind == "Ident":
        return [(st, seq_eq(I, st, a.data[0], b.data[0]))]
    eqi = inst.aux.get("eq0") if inst is not None else None
    if eqi is None:
        raise Unsupported("no key equality for %r" % (a,))
    ca = st.alloc(a)
    cb = st.alloc(b)
    out = []
    for s2, r in I.call_sync(st, I.prog.insts[eqi], [Ptr(ca), Ptr(cb)]):
        if isinstance(r, PanicExc):
            raise Unsupported("panic in key eq")
        out.append((s2, r))
    return out


def _find_key(I, st, inst, keys, k):
    """position of k among keys -> list of (state, index | None)"""
    work = [(st, 0)]
    done = []
    while work:
        s, i = work.pop()
        if i == len(keys):
            done.append((s, None))
            continue
        for s2, c in _key_eq(I, s, inst, keys[i], k):
            for s3, bv in _bool_alts(I, s2, c):
                if bv:
                    done.append((s3, i))
                else:
                    work.append((s3, i + 1))
    return done


def _deref_key(I, st, p):
    v = I.read(st, p, expand_scalar=False) if isinstance(p, Ptr) else p
    if isinstance(v, Lazy):
        v = I.lazy.expand(I, st, v, p if isinstance(p, Ptr) else None)
    if isinstance(v, Ptr):   # &str keys etc.
        return v
    return v


@model("std::collections::HashMap::<*>::new", "std::collections::HashMap::<*>::with_capacity", "std::collections::HashMap::<*>::with_capacity_and_hasher",
       "std::collections::HashMap::<*>::with_hasher", "std::collections::BTreeMap::<*>::new", "<std::collections::HashMap<*> as std::default::Default>::default",
       "<std::collections::BTreeMap<*> as std::default::Default>::default")
def m_map_new(I, st, inst, args):
    return Opaque("Map", ())


@model("std::collections::HashSet::<*>::new", "std::collections::HashSet::<*>::with_capacity", "std::collections::HashSet::<*>::with_capacity_and_hasher",
       "std::collections::HashSet::<*>::with_hasher", "std::collections::BTreeSet::<*>::new", "<std::collections::HashSet<*> as std::default::Default>::default",
       "<std::collections::BTreeSet<*> as std::default::Default>::default")
def m_set_new(I, st, inst, args):
    return Opaque("Set", ())


@model("<std::hash::RandomState as std::default::Default>::default", "std::hash::RandomState::new", "<fnv::FnvBuildHasher as std::default::Default>::default",
       "<std::hash::BuildHasherDefault<*> as std::default::Default>::default")
def m_random_state(I, st, inst, args):
    return Opaque("Hasher", None)


@model("std::collections::HashSet::<*>::contains::<*>", "std::collections::BTreeSet::<*>::contains::<*>", aux="eq:0")
def m_set_contains(I, st, inst, args):
    s = I.read(st, args[0])
    k = _deref_key(I, st, args[1])
    return Forks([(s2, idx is not None) for s2, idx in _find_key(I, st, inst, list(s.data), k)])


@model("std::collections::HashSet::<*>::insert", "std::collections::BTreeSet::<*>::insert", aux="eq:0")
def m_set_insert(I, st, inst, args):
    s = I.read(st, args[0])
    alts = []
    for s2, idx in _find_key(I, st, inst, list(s.data), args[1]):
        if idx is None:
            cur = I.read(s2, args[0])
            I.write(s2, args[0], Opaque("Set", cur.data + (args[1],)))
            alts.append((s2, True))
        else:
            alts.append((s2, False))
    return Forks(alts)


@model("std::collections::HashSet::<*>::iter", "<&std::collections::HashSet<*> as std::iter::IntoIterator>::into_iter", "std::collections::BTreeSet::<*>::iter")
def m_set_iter(I, st, inst, args):
    """borrowing iteration: a cursor over references to the elements, in insertion order (the order is not observable through
    the set operations modelled here; code that depends on hash order is outside the model)"""
    s = I.read(st, args[0])
    if isinstance(s, Ptr):
        s = I.read(st, s)
    cells = st.extra.get("set_cells") or {}
    refs = []
    for i, el in enumerate(s.data):
        refs.append(Ptr(st.alloc(el)))
    return Opaque("VecIntoIter", (tuple(refs), 0))


@model("<std::collections::HashSet<*> as std::iter::IntoIterator>::into_iter", "<std::collections::BTreeSet<*> as std::iter::IntoIterator>::into_iter")
def m_set_into_iter(I, st, inst, args):
    s = args[0]
    return Opaque("VecIntoIter", (tuple(s.data), 0))


def _set_add_all(I, st, inst, setptr, items):
    """insert items one by one (deduplicating with the element equality) -> list of states"""
    states = [st]
    for it in items:
        nxt = []
        for s in states:
            cur = I.read(s, setptr)
            for s2, idx in _find_key(I, s, inst, list(cur.data), it):
                if idx is None:
                    c2 = I.read(s2, setptr)
                    I.write(s2, setptr, Opaque("Set", c2.data + (it,)))
                nxt.append(s2)
        states = nxt
    return states


@model("<std::collections::HashSet<*> as std::iter::Extend<*>>::extend::<*>", aux="eq:0,into_iter:2,next:2")
def m_set_extend(I, st, inst, args):
    alts = []
    for s1, itv in _into_iter_value(I, st, inst, args[1], 2):
        if isinstance(itv, PanicExc):
            alts.append((s1, itv))
            continue
        if isinstance(itv, Opaque) and itv.kind == "Set":
            itv = Opaque("VecIntoIter", (tuple(itv.data), 0))
        for s2, items in drive_iter(I, s1, inst.aux.get("next2"), itv):
            if isinstance(items, PanicExc):
                alts.append((s2, items))
                continue
            for s3 in _set_add_all(I, s2, inst, args[0], items):
                alts.append((s3, UNIT))
    return Forks(alts)


@model("<std::collections::HashSet<*> as std::iter::FromIterator<*>>::from_iter::<*>", aux="eq:0,into_iter:2,next:2")
def m_set_from_iter(I, st, inst, args):
    alts = []
    for s1, itv in _into_iter_value(I, st, inst, args[0], 2):
        if isinstance(itv, PanicExc):
            alts.append((s1, itv))
            continue
        if isinstance(itv, Opaque) and itv.kind == "Set":
            itv = Opaque("VecIntoIter", (tuple(itv.data), 0))
        for s2, items in drive_iter(I, s1, inst.aux.get("next2"), itv):
            if isinstance(items, PanicExc):
                alts.append((s2, items))
                continue
            cell = s2.alloc(Opaque("Set", ()))
            for s3 in _set_add_all(I, s2, inst, Ptr(cell), items):
                alts.append((s3, I.read(s3, Ptr(cell))))
    return Forks(alts)


@model("std::collections::HashSet::<*>::len", "std::collections::BTreeSet::<*>::len", "std::collections::HashMap::<*>::len", "std::collections::BTreeMap::<*>::len")
def m_coll_len(I, st, inst, args):
    return len(I.read(st, args[0]).data)


@model("std::collections::HashSet::<*>::is_empty", "std::collections::BTreeSet::<*>::is_empty", "std::collections::HashMap::<*>::is_empty",
       "std::collections::BTreeMap::<*>::is_empty")
def m_coll_is_empty(I, st, inst, args):
    return len(I.read(st, args[0]).data) == 0


@model("std::collections::HashMap::<*>::insert", "std::collections::BTreeMap::<*>::insert", aux="eq:0")
def m_map_insert(I, st, inst, args):
    m = I.read(st, args[0])
    keys = [kv[0] for kv in m.data]
    alts = []
    for s2, idx in _find_key(I, st, inst, keys, args[1]):
        cur = I.read(s2, args[0])
        if idx is None:
            I.write(s2, args[0], Opaque("Map", cur.data + ((args[1], args[2]),)))
            alts.append((s2, NONE))
        else:
            old = cur.data[idx][1]
            I.write(s2, args[0], Opaque("Map", cur.data[:idx] + ((cur.data[idx][0], args[2]),) + cur.data[idx + 1:]))
            alts.append((s2, mk_option(old)))
    return Forks(alts)


@model("std::collections::HashMap::<*>::contains_key::<*>", "std::collections::BTreeMap::<*>::contains_key::<*>", aux="eq:0")
def m_map_contains_key(I, st, inst, args):
    m = I.read(st, args[0])
    k = _deref_key(I, st, args[1])
    return Forks([(s2, idx is not None) for s2, idx in _find_key(I, st, inst, [kv[0] for kv in m.data], k)])


@model("std::collections::HashMap::<*>::get::<*>", "std::collections::BTreeMap::<*>::get::<*>", aux="eq:0")
def m_map_get(I, st, inst, args):
    m = I.read(st, args[0])
    k = _deref_key(I, st, args[1])
    alts = []
    for s2, idx in _find_key(I, st, inst, [kv[0] for kv in m.data], k):
        if idx is None:
            alts.append((s2, NONE))
        else:
            c = s2.alloc(m.data[idx][1])
            alts.append((s2, mk_option(Ptr(c))))
    return Forks(alts)


@model("std::vec::partial_eq::<impl std::cmp::PartialEq* for std::vec::Vec<*>>::eq", "alloc::vec::partial_eq::<impl std::cmp::PartialEq* for std::vec::Vec<*>>::eq",
       "<std::vec::Vec<*> as std::cmp::PartialEq*>::eq", aux="eq:0")
def m_vec_eq(I, st, inst, args):
    a = get_vec(I, st, args[0])
    b = get_vec(I, st, args[1])
    if len(a.elems) != len(b.elems):
        return False
    eqi = inst.aux.get("eq0")
    if eqi is None:
        raise Unsupported("Vec == without element equality")
    einst = I.prog.insts[eqi]
    states = [(st, True)]
    for i in range(len(a.elems)):
        nxt = []
        for s, acc in states:
            if acc is False:
                nxt.append((s, False))
                continue
            pa = Ptr(args[0].cell, args[0].path + ("e", i))
            pb = Ptr(args[1].cell, args[1].path + ("e", i))
            for s2, r in I.call_sync(s, einst, [pa, pb]):
                if isinstance(r, PanicExc):
                    raise Unsupported("panic in element eq")
                for s3, bv in _bool_alts(I, s2, r):
                    nxt.append((s3, bool(bv) and acc))
        states = nxt
    return Forks(states)
