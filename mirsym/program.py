"""Loading of a mirdump JSON file: instances, bodies, types, side tables."""
import json
import fnmatch
import re


class Ty:
    __slots__ = ("id", "kind", "str", "bits", "signed", "adt", "elem", "tys", "len", "layout",
                 "mut", "fnsig", "closure", "discr_ty", "raw")

    def __init__(self, tid, rec):
        self.id = tid
        self.raw = rec
        self.str = norm_name(rec.get("str", "?"))
        self.layout = rec.get("layout")
        self.bits = None
        self.signed = False
        self.adt = None
        self.elem = None
        self.tys = None
        self.len = None
        self.mut = None
        self.fnsig = None
        self.closure = rec.get("closure")
        self.discr_ty = rec.get("discr_ty")
        k = rec["kind"]
        if "RigidTy" not in k:
            self.kind = "other"
            return
        r = k["RigidTy"]
        if isinstance(r, str):
            self.kind = r.lower()  # bool, char, str, never
            if self.kind == "bool":
                self.bits = 8
            elif self.kind == "char":
                self.bits = 32
            return
        (tag, val), = r.items()
        if tag in ("Int", "Uint"):
            self.kind = "int"
            self.signed = tag == "Int"
            w = val[1:]
            self.bits = 64 if w == "size" else int(w)
        elif tag == "Float":
            self.kind = "float"
            self.bits = int(val[1:])
        elif tag == "Adt":
            self.kind = "adt"
            self.adt = rec["adt"]
            self.adt["name"] = norm_name(self.adt["name"])
        elif tag == "Array":
            self.kind = "array"
            self.elem = val[0]
            self.len = rec.get("len")
        elif tag == "Slice":
            self.kind = "slice"
            self.elem = val
        elif tag == "RawPtr":
            self.kind = "rawptr"
            self.elem = val[0]
            self.mut = val[1]
        elif tag == "Ref":
            self.kind = "ref"
            self.elem = val[1]
            self.mut = val[2]
        elif tag == "Tuple":
            self.kind = "tuple"
            self.tys = val
        elif tag == "FnDef":
            self.kind = "fndef"
        elif tag == "FnPtr":
            self.kind = "fnptr"
            self.fnsig = val["value"]
        elif tag == "Closure":
            self.kind = "closure"
        elif tag == "Dynamic":
            self.kind = "dyn"
        elif tag == "Pat":
            self.kind = "pat"
            self.elem = val[0]
        elif tag == "Foreign":
            self.kind = "foreign"
        else:
            self.kind = tag.lower()

    @property
    def is_enum(self):
        return self.adt is not None and self.adt["kind"] == "Enum"

    @property
    def is_struct(self):
        return self.adt is not None and self.adt["kind"] == "Struct"

    @property
    def is_union(self):
        return self.adt is not None and self.adt["kind"] == "Union"

    @property
    def name(self):
        return self.adt["name"] if self.adt else self.str

    def variant_fields(self, v=0):
        return self.adt["variants"][v]["fields"]

    def __repr__(self):
        return "Ty(%d:%s)" % (self.id, self.str)


_IDENT_RE = re.compile(r"syn::Ident(?![A-Za-z0-9_])")


def norm_name(n):
    """canonical spelling of re-exported paths (rustc prints the shortest visible path per crate)"""
    return _IDENT_RE.sub("proc_macro2::Ident", n.replace("darling_core::", "darling::"))


class Inst:
    __slots__ = ("id", "name", "kind", "intrinsic", "body", "stopped", "aux", "abi", "args", "ty", "is_clone",
                 "model", "has_body", "sig", "nlocals", "spread_arg", "arg_count", "blocks", "local_tys")

    def __init__(self, iid, rec):
        self.id = iid
        self.name = norm_name(rec["name"])
        self.kind = rec["kind"]
        self.intrinsic = rec.get("intrinsic")
        self.body = rec.get("body")
        self.stopped = rec.get("stopped", False)
        self.aux = rec.get("aux", {})
        self.abi = rec.get("abi")
        self.args = rec.get("args", [])
        self.ty = rec.get("ty")
        self.sig = rec.get("sig")
        self.has_body = rec.get("has_body", False)
        self.model = None
        self.is_clone = (self.name.startswith("<") and self.name.endswith(" as std::clone::Clone>::clone")) or \
            ("<impl std::clone::Clone for " in self.name and self.name.endswith(">::clone"))
        if self.body:
            self.blocks = self.body["blocks"]
            self.local_tys = [l["ty"] for l in self.body["locals"]]
            self.nlocals = len(self.local_tys)
            self.spread_arg = self.body.get("spread_arg")
            self.arg_count = self.body["arg_count"]
        else:
            self.blocks = None
            self.local_tys = None
            self.nlocals = 0
            self.spread_arg = None
            self.arg_count = 0

    def targ(self, i):
        tys = [a["ty"] for a in self.args if isinstance(a, dict) and "ty" in a]
        return tys[i] if i < len(tys) else None

    def __repr__(self):
        return "Inst(%d:%s)" % (self.id, self.name)


class Program:
    def __init__(self, path):
        with open(path) as f:
            d = json.load(f)
        self.crate = d["crate"]
        self.entries = d["entries"]
        self.types = {int(k): Ty(int(k), v) for k, v in d["types"].items()}
        self.insts = {int(k): Inst(int(k), v) for k, v in d["instances"].items()}
        self.fndefs = {int(k): v for k, v in d["fndefs"].items()}
        self.drops = {int(k): v for k, v in d["drops"].items()}
        self.allocs = {int(k): v for k, v in d["allocs"].items()}
        self.vtables = d.get("vtables", {})
        self.by_name = {}
        for i in self.insts.values():
            self.by_name.setdefault(i.name, i)
        self._ty_by_str = None

    def ty(self, tid):
        return self.types[tid]

    def find_ty(self, s):
        if self._ty_by_str is None:
            self._ty_by_str = {}
            for t in self.types.values():
                self._ty_by_str.setdefault(t.str, t)
        return self._ty_by_str.get(s)

    def entry(self, name):
        return self.insts[self.entries[name]]


_glob_cache = {}


def glob_match(pat, s):
    r = _glob_cache.get(pat)
    if r is None:
        r = re.compile("^" + ".*".join(re.escape(p) for p in pat.split("*")) + "$", re.S)
        _glob_cache[pat] = r
    return r.match(s) is not None
