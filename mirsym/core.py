"""Symbolic executor for the MIR dumped by tools/mirdump.

One State = call stack + heap + path condition.  Control flow on symbolic data forks the
state (feasibility decided by z3).  Lazily initialised symbolic inputs are `Lazy` values
that are expanded by type on first access (see lazy.py).
"""
import time
import z3

from .values import *
from .program import Program, glob_match


import os
DEBUG_SMT = bool(os.environ.get("MIRSYM_DEBUG_SMT"))


class Unsupported(Exception):
    pass


class NeedFork(Exception):
    """raised while executing a step: the step must be re-run once per choice of decision `name`."""

    def __init__(self, name, choices, constraint=None):
        self.name = name
        self.choices = choices
        self.constraint = constraint  # fn(choice) -> z3 Bool or None


class PanicExc(Exception):
    def __init__(self, msg, nounwind=False):
        self.msg = msg
        self.nounwind = nounwind


class Forks:
    """returned by a model: several continuation states each with its own return value."""

    def __init__(self, alts):
        self.alts = alts  # list of (state, value)  | (state, PanicExc)


class Frame:
    __slots__ = ("inst", "base", "bb", "si", "dest", "target", "unwind", "sync")

    def __init__(self, inst, base, dest, target, unwind, sync=False):
        self.inst = inst
        self.base = base
        self.bb = 0
        self.si = 0
        self.dest = dest
        self.target = target
        self.unwind = unwind
        self.sync = sync

    def copy(self):
        f = Frame(self.inst, self.base, self.dest, self.target, self.unwind, self.sync)
        f.bb = self.bb
        f.si = self.si
        return f


class State:
    __slots__ = ("frames", "heap", "pc", "next_cell", "unwinding", "panics", "decisions", "ret", "steps",
                 "status", "info", "branches", "inconclusive", "trace", "extra")

    def __init__(self):
        self.frames = []
        self.heap = {}
        self.pc = []
        self.next_cell = 1
        self.unwinding = False
        self.panics = []
        self.decisions = {}
        self.ret = None
        self.steps = 0
        self.status = None
        self.info = None
        self.branches = 0
        self.inconclusive = False
        self.trace = []
        self.extra = {}

    def fork(self):
        s = State()
        s.frames = [f.copy() for f in self.frames]
        s.heap = dict(self.heap)
        s.pc = list(self.pc)
        s.next_cell = self.next_cell
        s.unwinding = self.unwinding
        s.panics = list(self.panics)
        s.decisions = dict(self.decisions)
        s.ret = self.ret
        s.steps = self.steps
        s.status = self.status
        s.info = self.info
        s.branches = self.branches
        s.inconclusive = self.inconclusive
        s.trace = list(self.trace)
        s.extra = dict(self.extra)
        return s

    def alloc(self, v):
        c = self.next_cell
        self.next_cell += 1
        self.heap[c] = v
        return c


def bvval(v, bits):
    if isinstance(v, bool):
        return z3.BitVecVal(1 if v else 0, bits)
    if isinstance(v, int):
        return z3.BitVecVal(v, bits)
    if z3.is_bool(v):
        return z3.If(v, z3.BitVecVal(1, bits), z3.BitVecVal(0, bits))
    return v


def wrap_int(v, bits, signed):
    v &= (1 << bits) - 1
    if signed and v >> (bits - 1):
        v -= 1 << bits
    return v


def simp(e):
    e = z3.simplify(e)
    if z3.is_true(e):
        return True
    if z3.is_false(e):
        return False
    if z3.is_bv_value(e):
        return e  # caller converts using type
    return e


class Interp:
    def __init__(self, prog, models=None, policy=None, timeout_ms=10000, max_steps=400000):
        self.prog = prog
        self.types = prog.types
        self.policy = policy
        self.max_steps = max_steps
        self.timeout_ms = timeout_ms
        self._solver = None
        self._cur_st = None
        self.stats = {"solver_queries": 0, "solver_time": 0.0, "forks": 0, "steps": 0, "unknown": 0}
        self._static_cells = {}
        self._opty = {}
        self._sig_drop = {}
        self.models = models or []
        self.functions_run = set()
        self.models_used = set()
        self.unsupported = {}
        self.domains = {}
        self._bind_models()
        from . import lazy as _lazy
        self.lazy = _lazy

    # ------------------------------------------------------------------ models
    def _bind_models(self):
        key = tuple(p for p, _ in self.models)
        if getattr(self.prog, "_bound_models", None) == key:
            return
        # index patterns by a literal prefix/suffix to avoid trying every regex on every instance
        from .models import EXCLUDE
        for inst in self.prog.insts.values():
            inst.model = None
            nm = inst.name
            if any(glob_match(x, nm) for x in EXCLUDE):
                continue
            for pat, fn in self.models:
                if "*" not in pat:
                    if pat == nm:
                        inst.model = fn
                        break
                    continue
                head = pat.split("*", 1)[0]
                tail = pat.rsplit("*", 1)[1]
                if not nm.startswith(head) or not nm.endswith(tail):
                    continue
                if glob_match(pat, nm):
                    inst.model = fn
                    break
        self.prog._bound_models = key

    # ------------------------------------------------------------------ solver
    def check(self, pc, extra=None):
        """sat / unsat / unknown of conjunction"""
        t0 = time.time()
        self.stats["solver_queries"] += 1
        s = self._solver
        if s is None or self.stats["solver_queries"] % 2000 == 0:
            s = self._solver = z3.Solver()
            s.set("timeout", self.timeout_ms)
        s.push()
        try:
            for c in pc:
                s.add(c)
            if extra is not None:
                s.add(extra)
            if os.environ.get("VERIF_DUMPQ"):
                with open(os.environ["VERIF_DUMPQ"], "w") as f:
                    f.write(s.to_smt2())
            r = s.check()
        finally:
            s.pop()
        self.stats["solver_time"] += time.time() - t0
        if r == z3.unknown:
            self.stats["unknown"] += 1
        return r

    # ---- cheap decision of `X == "const"` style conditions on otherwise unconstrained string atoms
    def _simple_str_cond(self, c):
        """(var name, const, positive?) if c is X == "k" / Not(X == "k") with X an uninterpreted string constant"""
        pos = True
        if z3.is_not(c):
            c = c.arg(0)
            pos = False
        if z3.is_eq(c):
            a, b = c.arg(0), c.arg(1)
            if z3.is_string_value(b) and z3.is_const(a) and a.decl().kind() == z3.Z3_OP_UNINTERPRETED and z3.is_string(a):
                return a.decl().name(), b.as_string(), pos
            if z3.is_string_value(a) and z3.is_const(b) and b.decl().kind() == z3.Z3_OP_UNINTERPRETED and z3.is_string(b):
                return b.decl().name(), a.as_string(), pos
        return None

    def _note_constraint(self, st, c):
        """maintain per-state facts about string atoms (called for every constraint added to the pc)"""
        sc = self._simple_str_cond(c) if is_sym(c) else None
        facts = st.extra.get("sfacts")
        facts = dict(facts) if facts else {}
        if sc is not None:
            name, k, pos = sc
            cur = facts.get(name)
            if cur != "complex":
                if pos:
                    facts[name] = ("eq", k)
                else:
                    ne = cur[1] if cur and cur[0] == "ne" else frozenset()
                    if not (cur and cur[0] == "eq"):
                        facts[name] = ("ne", ne | {k})
        else:
            for v in self._string_vars(c):
                facts[v] = "complex"
        st.extra["sfacts"] = facts

    def _string_vars(self, e, out=None, seen=None):
        if out is None:
            out, seen = set(), set()
        if not is_sym(e):
            return out
        i = e.get_id()
        if i in seen:
            return out
        seen.add(i)
        if z3.is_const(e):
            if e.decl().kind() == z3.Z3_OP_UNINTERPRETED and z3.is_string(e):
                out.add(e.decl().name())
            return out
        for ch in e.children():
            self._string_vars(ch, out, seen)
        return out

    def add_pc(self, st, c):
        if c is True or (is_sym(c) and z3.is_true(c)):
            return
        st.pc.append(c)
        self._note_constraint(st, c)

    def quick_feasible(self, st, cond):
        sc = self._simple_str_cond(cond)
        if sc is None:
            return None
        name, k, pos = sc
        cur = (st.extra.get("sfacts") or {}).get(name)
        if cur == "complex":
            return None
        if cur is None:
            return True
        if cur[0] == "eq":
            return (cur[1] == k) == pos
        # known disequalities only
        if pos:
            return k not in cur[1]
        return True

    def feasible(self, st, cond):
        if cond is True:
            return True
        if cond is False:
            return False
        q = self.quick_feasible(st, cond)
        if q is not None:
            self.stats["quick_decided"] = self.stats.get("quick_decided", 0) + 1
            return q
        r = self.check(st.pc, cond)
        if r == z3.unknown:
            st.inconclusive = True
            return True
        return r == z3.sat

    # ------------------------------------------------------------------ types
    def ty(self, tid):
        return self.types[tid]

    def pointee(self, tid):
        t = self.types[tid]
        if t.kind in ("ref", "rawptr"):
            return t.elem
        if t.adt and t.adt.get("is_box"):
            return t.adt["args"][0]
        raise Unsupported("pointee of %s" % t)

    def place_ty(self, inst, place):
        key = ("p", inst.id, id(place))
        r = self._opty.get(key)
        if r is not None:
            return r
        ty = inst.local_tys[place["local"]]
        for e in place["projection"]:
            if e == "Deref":
                ty = self.pointee(ty)
            elif "Field" in e:
                ty = e["Field"][1]
            elif "Index" in e or "ConstantIndex" in e:
                ty = self.types[ty].elem
            elif "Downcast" in e:
                pass
            elif "OpaqueCast" in e:
                ty = e["OpaqueCast"]
            elif "Subslice" in e:
                pass
            else:
                raise Unsupported("projection %s" % e)
        self._opty[key] = ty
        return ty

    def operand_ty(self, inst, op):
        if "Constant" in op:
            return op["Constant"]["const_"]["ty"]
        if "Copy" in op:
            return self.place_ty(inst, op["Copy"])
        if "Move" in op:
            return self.place_ty(inst, op["Move"])
        return None

    # ------------------------------------------------------------------ heap access
    def static_value(self, key):
        v = self._static_cells.get(key)
        if v is None:
            raise Unsupported("dangling cell %s" % (key,))
        return v

    def cell_get(self, st, cell):
        v = st.heap.get(cell, None)
        if v is None:
            if isinstance(cell, tuple):
                return self.static_value(cell)
            return UNINIT
        return v

    def project(self, st, v, step, here):
        """one projection step on value v located at pointer `here`."""
        if isinstance(v, Lazy):
            v = self.lazy.expand(self, st, v, here, want=step)
        if isinstance(step, int):
            if isinstance(v, Agg):
                if step < len(v.f):
                    return v.f[step]
                return UNINIT
            if v is UNINIT or isinstance(v, Poison):
                return UNINIT
            if isinstance(v, VecVal):
                if step < len(v.elems):
                    return v.elems[step]
                return UNINIT
            if isinstance(v, str):
                return v.encode()[step]
            if isinstance(v, ByteSeq):
                return v.b[step]
            h = self.field_hook(st, v, step, here)
            if h is not None:
                return h
            raise Unsupported("field %s of %r" % (step, v))
        if isinstance(step, tuple) and step[0] == "sub":
            a, b = step[1], step[2]
            if isinstance(v, Agg):
                return Agg(None, v.f[a:b])
            if isinstance(v, VecVal):
                return Agg(None, v.elems[a:b])
            if isinstance(v, ByteSeq):
                return ByteSeq(v.b[a:b])
            if isinstance(v, str):
                return v.encode("utf-8", "surrogateescape")[a:b].decode("utf-8", "surrogateescape")
            raise Unsupported("subslice of %r" % (v,))
        if isinstance(step, tuple):  # ('V', k) downcast
            if isinstance(v, Agg):
                return v
            if v is UNINIT:
                return v
            h = self.field_hook(st, v, step, here)
            if h is not None:
                return h
            raise Unsupported("downcast of %r" % (v,))
        if step == "e":
            if isinstance(v, VecVal):
                return Agg(None, v.elems)
            raise Unsupported("elems of %r" % (v,))
        if step == "S":
            if isinstance(v, StringVal):
                return v.s
            raise Unsupported("str of %r" % (v,))
        raise Unsupported("step %r" % (step,))

    def field_hook(self, st, v, step, here):
        return None

    def read(self, st, ptr, expand_scalar=True):
        if not isinstance(ptr, Ptr):
            raise Unsupported("read through %r" % (ptr,))
        v = self.cell_get(st, ptr.cell)
        path = ptr.path
        for i, step in enumerate(path):
            v = self.project(st, v, step, Ptr(ptr.cell, path[:i]))
        if isinstance(v, Lazy) and expand_scalar:
            t = self.types[v.ty]
            if t.kind in ("int", "bool", "char", "float", "ref", "rawptr", "pat") or self.lazy.is_eager(self, t):
                v = self.lazy.expand(self, st, v, ptr, want=None)
        return v

    def _set(self, st, v, path, i, new, cell):
        if i == len(path):
            return new
        step = path[i]
        if isinstance(v, Lazy):
            v = self.lazy.expand(self, st, v, Ptr(cell, path[:i]), want=step)
        if isinstance(step, int):
            if isinstance(v, Agg):
                f = list(v.f)
                while len(f) <= step:
                    f.append(UNINIT)
                f[step] = self._set(st, f[step], path, i + 1, new, cell)
                return Agg(v.v, f)
            if v is UNINIT or isinstance(v, Poison):
                f = [UNINIT] * (step + 1)
                f[step] = self._set(st, UNINIT, path, i + 1, new, cell)
                return Agg(None, f)
            if isinstance(v, VecVal):
                f = list(v.elems)
                f[step] = self._set(st, f[step], path, i + 1, new, cell)
                return VecVal(f)
            raise Unsupported("write field %s of %r" % (step, v))
        if isinstance(step, tuple):
            if isinstance(v, Agg):
                inner = self._set(st, v, path, i + 1, new, cell)
                if isinstance(inner, Agg) and inner.v is None:
                    inner = Agg(step[1], inner.f)
                return inner
            if v is UNINIT:
                inner = self._set(st, Agg(step[1], ()), path, i + 1, new, cell)
                return inner
            raise Unsupported("write downcast of %r" % (v,))
        if step == "e":
            if isinstance(v, VecVal):
                r = self._set(st, Agg(None, v.elems), path, i + 1, new, cell)
                return VecVal(r.f)
        if step == "S":
            if isinstance(v, StringVal):
                return StringVal(self._set(st, v.s, path, i + 1, new, cell))
        raise Unsupported("write step %r of %r" % (step, v))

    def write(self, st, ptr, new):
        if not isinstance(ptr, Ptr):
            raise Unsupported("write through %r" % (ptr,))
        if isinstance(ptr.cell, tuple) and ptr.cell[0] != "L":
            raise Unsupported("write to static %r" % (ptr,))
        if not ptr.path:
            st.heap[ptr.cell] = new
            return
        root = st.heap.get(ptr.cell, UNINIT)
        st.heap[ptr.cell] = self._set(st, root, ptr.path, 0, new, ptr.cell)

    # ------------------------------------------------------------------ places / operands
    def eval_place(self, st, fr, place):
        ptr = Ptr(fr.base + place["local"])
        proj = place["projection"]
        if not proj:
            return ptr
        for e in proj:
            if e == "Deref":
                v = self.read(st, ptr)
                here = ptr
                while isinstance(v, (Agg, Lazy)):  # Box<T> / NonNull<T>: dig out the raw pointer
                    if isinstance(v, Lazy):
                        v = self.lazy.expand(self, st, v, here, want=0)
                        continue
                    if not v.f:
                        break
                    here = Ptr(here.cell, here.path + (0,))
                    v = v.f[0]
                if not isinstance(v, Ptr):
                    raise Unsupported("deref of %r" % (v,))
                ptr = v
            elif "Field" in e:
                # metadata of a fat pointer carries over to the (possibly unsized) tail field
                ptr = Ptr(ptr.cell, ptr.path + (e["Field"][0],), ptr.meta if isinstance(ptr.meta, tuple) else None)
            elif "Downcast" in e:
                ptr = Ptr(ptr.cell, ptr.path + (("V", e["Downcast"]),), None)
            elif "Index" in e:
                iv = self.read(st, Ptr(fr.base + e["Index"]))
                iv = self.concrete_int(st, iv)
                ptr = self.index_ptr(ptr, iv)
            elif "ConstantIndex" in e:
                ci = e["ConstantIndex"]
                if ci["from_end"]:
                    n = self.seq_len(st, ptr)
                    ptr = self.index_ptr(ptr, n - ci["offset"])
                else:
                    ptr = self.index_ptr(ptr, ci["offset"])
            elif "OpaqueCast" in e:
                pass
            elif "Subslice" in e:
                ss = e["Subslice"]
                n = self.seq_len(st, ptr)
                a = ss["from"]
                b = (n - ss["to"]) if ss["from_end"] else ss["to"]
                ptr = Ptr(ptr.cell, ptr.path + (("sub", a, b),), b - a)
            else:
                raise Unsupported("projection %s" % (e,))
        return ptr

    def index_sub(self, ptr, a, b):
        """pointer to the sub-slice [a, b) of the sequence ptr points to"""
        if ptr.path and isinstance(ptr.path[-1], tuple) and ptr.path[-1][0] == "sub":
            o = ptr.path[-1][1]
            return Ptr(ptr.cell, ptr.path[:-1] + (("sub", o + a, o + b),), b - a)
        return Ptr(ptr.cell, ptr.path + (("sub", a, b),), b - a)

    def index_ptr(self, ptr, i):
        """pointer to element i of the sequence ptr points to (offsets of sub-slices are folded)"""
        if ptr.path and isinstance(ptr.path[-1], tuple) and ptr.path[-1][0] == "sub":
            return Ptr(ptr.cell, ptr.path[:-1] + (ptr.path[-1][1] + i,), None)
        return Ptr(ptr.cell, ptr.path + (i,), None)

    def seq_len(self, st, ptr):
        if ptr.meta is not None and isinstance(ptr.meta, int):
            return ptr.meta
        v = self.read(st, ptr)
        if isinstance(v, Agg):
            return len(v.f)
        if isinstance(v, ByteSeq):
            return len(v.b)
        if isinstance(v, str):
            return len(v.encode("utf-8", "surrogateescape"))
        if isinstance(v, VecVal):
            return len(v.elems)
        raise Unsupported("len of %r" % (v,))

    def str_len(self, s):
        if isinstance(s, str):
            return len(s.encode("utf-8", "surrogateescape"))
        if isinstance(s, ByteSeq):
            return len(s.b)
        if is_sym(s):
            return z3.Int2BV(z3.Length(s), 64)
        raise Unsupported("str_len of %r" % (s,))

    def unwrap_ptr(self, v, st=None):
        while isinstance(v, (Agg, Lazy)):
            if isinstance(v, Lazy):
                if st is None:
                    st = self._cur_st
                if st is None:
                    raise Unsupported("lazy pointer wrapper %r" % (v,))
                v = self.lazy.expand(self, st, v, None, want=0)
                continue
            if not v.f:
                raise Unsupported("no pointer in aggregate")
            v = v.f[0]
        return v

    def concrete_int(self, st, v):
        if isinstance(v, bool):
            return int(v)
        if isinstance(v, int):
            return v
        if is_sym(v):
            s = z3.simplify(v)
            if z3.is_bv_value(s):
                return s.as_long()
            # fork over feasible values (bounded)
            raise Unsupported("symbolic index %s" % v)
        raise Unsupported("not an int: %r" % (v,))

    def eval_operand(self, st, fr, op):
        if "Copy" in op:
            return self.read(st, self.eval_place(st, fr, op["Copy"]))
        if "Move" in op:
            return self.read(st, self.eval_place(st, fr, op["Move"]))
        if "Constant" in op:
            return self.eval_const(st, op["Constant"]["const_"])
        if "RuntimeChecks" in op:
            return False
        raise Unsupported("operand %s" % op)

    # ------------------------------------------------------------------ constants
    def eval_const(self, st, c):
        kind = c["kind"]
        ty = self.types[c["ty"]]
        if kind == "ZeroSized":
            if ty.kind == "fndef":
                fd = self.prog.fndefs.get(ty.id)
                return FnPtr(fd["inst"]) if fd else UNIT
            if ty.adt and ty.is_enum:
                return Agg(0, ())
            return UNIT
        if isinstance(kind, dict) and "Allocated" in kind:
            a = kind["Allocated"]
            return self.decode(a["bytes"], {o: p for o, p in a["provenance"]["ptrs"]}, 0, ty)
        raise Unsupported("const kind %s" % (kind,))

    def alloc_cell(self, aid, pointee_ty, meta):
        """static cell holding the decoded contents of global allocation aid viewed as pointee_ty"""
        key = ("a", aid, pointee_ty.id, meta if isinstance(meta, int) else None)
        if key in self._static_cells:
            return key
        ga = self.prog.allocs.get(aid)
        if ga is None:
            raise Unsupported("unknown alloc %s" % aid)
        if "Memory" in ga:
            a = ga["Memory"]
        elif "Static" in ga:
            a = ga["Static"].get("init")
            if a is None:
                raise Unsupported("static without initializer %s" % ga["Static"].get("name"))
        else:
            raise Unsupported("alloc kind %s" % list(ga))
        prov = {o: p for o, p in a["provenance"]["ptrs"]}
        by = a["bytes"]
        if pointee_ty.kind == "str":
            v = bytes(by[:meta]).decode("utf-8", "surrogateescape")
        elif pointee_ty.kind == "slice":
            et = self.types[pointee_ty.elem]
            sz = self.size_of(et)
            v = Agg(None, [self.decode(by, prov, i * sz, et) for i in range(meta)])
        else:
            v = self.decode(by, prov, 0, pointee_ty)
        self._static_cells[key] = v
        return key

    def size_of(self, t):
        if t.layout:
            return t.layout["size"]["num_bits"] // 8
        raise Unsupported("size of %s" % t)

    def read_uint(self, by, off, n):
        v = 0
        for i in range(n):
            b = by[off + i]
            if b is None:
                return None
            v |= b << (8 * i)
        return v

    def decode(self, by, prov, off, ty):
        k = ty.kind
        if k == "int":
            v = self.read_uint(by, off, ty.bits // 8)
            if v is None:
                return UNINIT
            return wrap_int(v, ty.bits, ty.signed)
        if k == "bool":
            return bool(by[off])
        if k == "char":
            return self.read_uint(by, off, 4)
        if k == "float":
            import struct
            raw = self.read_uint(by, off, ty.bits // 8)
            return struct.unpack("<d" if ty.bits == 64 else "<f", raw.to_bytes(ty.bits // 8, "little"))[0]
        if k in ("ref", "rawptr"):
            pt = self.types[ty.elem]
            unsized = pt.kind in ("str", "slice", "dyn")
            if off in prov:
                aid = prov[off]
                ga = self.prog.allocs.get(aid, {})
                if "Function" in ga:
                    return FnPtr(ga["Function"])
                meta = None
                if pt.kind in ("str", "slice"):
                    meta = self.read_uint(by, off + 8, 8)
                elif pt.kind == "dyn":
                    raise Unsupported("const dyn pointer")
                cell = self.alloc_cell(aid, pt, meta)
                return Ptr(cell, (), meta)
            addr = self.read_uint(by, off, 8)
            if unsized and pt.kind in ("str", "slice"):
                n = self.read_uint(by, off + 8, 8)
                if n == 0:
                    key = ("empty", pt.id)
                    self._static_cells[key] = "" if pt.kind == "str" else Agg(None, ())
                    return Ptr(key, (), 0)
            return IntPtr(addr)
        if k == "fnptr":
            if off in prov:
                ga = self.prog.allocs.get(prov[off], {})
                if "Function" in ga:
                    return FnPtr(ga["Function"])
            raise Unsupported("fnptr const")
        if k == "tuple":
            if not ty.tys:
                return UNIT
            offs = ty.layout["fields"]["Arbitrary"]["offsets"]
            return Agg(None, [self.decode(by, prov, off + offs[i]["num_bits"] // 8, self.types[t])
                              for i, t in enumerate(ty.tys)])
        if k == "array":
            et = self.types[ty.elem]
            sz = self.size_of(et)
            return Agg(None, [self.decode(by, prov, off + i * sz, et) for i in range(ty.len)])
        if k == "adt":
            lay = ty.layout
            if lay is None:
                raise Unsupported("adt const without layout %s" % ty)
            variants = lay["variants"]
            if ty.is_struct:
                offs = lay["fields"]["Arbitrary"]["offsets"] if isinstance(lay["fields"], dict) and "Arbitrary" in lay["fields"] else []
                fs = ty.variant_fields(0)
                return Agg(None, [self.decode(by, prov, off + offs[i]["num_bits"] // 8, self.types[f["ty"]])
                                  for i, f in enumerate(fs)])
            if ty.is_enum:
                if "Single" in variants:
                    vi = variants["Single"]["index"]
                    offs = lay["fields"]["Arbitrary"]["offsets"] if isinstance(lay["fields"], dict) and "Arbitrary" in lay["fields"] else []
                    fs = ty.variant_fields(vi)
                    return Agg(vi, [self.decode(by, prov, off + offs[i]["num_bits"] // 8, self.types[f["ty"]])
                                    for i, f in enumerate(fs)])
                m = variants["Multiple"]
                tag_off = lay["fields"]["Arbitrary"]["offsets"][m["tag_field"]]["num_bits"] // 8
                tval = m["tag"]["Initialized"]["value"]
                if "Int" in tval:
                    tbytes = int(tval["Int"]["length"][1:]) // 8
                elif "Pointer" in tval:
                    tbytes = 8
                else:
                    raise Unsupported("tag kind")
                has_prov = (off + tag_off) in prov
                tag = self.read_uint(by, off + tag_off, tbytes)
                enc = m["tag_encoding"]
                if enc == "Direct":
                    vi = None
                    for i, vd in enumerate(ty.adt["variants"]):
                        if int(vd["discr"]) & ((1 << (8 * tbytes)) - 1) == tag:
                            vi = i
                    if vi is None:
                        raise Unsupported("bad tag")
                else:
                    n = enc["Niche"]
                    start, end = n["niche_variants"]["start"], n["niche_variants"]["end"]
                    rel = (tag - n["niche_start"]) & ((1 << (8 * tbytes)) - 1)
                    if not has_prov and rel <= end - start:
                        vi = start + rel
                    else:
                        vi = n["untagged_variant"]
                offs = m["variants"][vi]["offsets"]
                fs = ty.variant_fields(vi)
                return Agg(vi, [self.decode(by, prov, off + offs[i]["num_bits"] // 8, self.types[f["ty"]])
                                for i, f in enumerate(fs)])
        raise Unsupported("decode const of %s" % ty)

    # ------------------------------------------------------------------ arithmetic
    def to_bv(self, v, ty):
        if is_sym(v):
            if z3.is_bool(v):
                return z3.If(v, z3.BitVecVal(1, ty.bits), z3.BitVecVal(0, ty.bits))
            return v
        if isinstance(v, (bool, int)):
            return z3.BitVecVal(int(v), ty.bits)
        if isinstance(v, SymDiscr):
            raise Unsupported("arith on lazy discriminant")
        raise Unsupported("to_bv %r" % (v,))

    def norm(self, e, ty):
        """simplify a z3 result back to a concrete python value when possible"""
        if not is_sym(e):
            return e
        s = z3.simplify(e)
        if z3.is_bv_value(s):
            v = s.as_long()
            if ty is not None and ty.kind == "int":
                return wrap_int(v, ty.bits, ty.signed)
            return v
        if z3.is_true(s):
            return True
        if z3.is_false(s):
            return False
        return s

    def binop(self, st, op, a, b, ta, tb):
        if isinstance(a, SymDiscr) or isinstance(b, SymDiscr):
            a = self.resolve_discr(st, a)
            b = self.resolve_discr(st, b)
        if isinstance(a, Poison) or isinstance(b, Poison) or a is UNINIT or b is UNINIT:
            return Poison("binop")
        if isinstance(a, PtrAddr) or isinstance(b, PtrAddr):
            pa, other = (a, b) if isinstance(a, PtrAddr) else (b, a)
            if op == "BitAnd" and isinstance(other, int) and 0 <= other < 4096:
                return 0  # suitably aligned
            if op in ("Eq", "Ne") and isinstance(other, int) and other == 0:
                return op == "Ne"  # non-null
            if op in ("Eq", "Ne") and isinstance(other, PtrAddr):
                eq = self.ptr_eq(pa.ptr, other.ptr)
                return eq if op == "Eq" else not eq
            raise Unsupported("arithmetic on pointer address (%s)" % op)
        k = ta.kind
        if op in ("Eq", "Ne") and (isinstance(a, (Ptr, IntPtr, FnPtr)) or isinstance(b, (Ptr, IntPtr, FnPtr))):
            eq = self.ptr_eq(a, b)
            return eq if op == "Eq" else (not eq)
        if k == "bool":
            if isinstance(a, bool) and isinstance(b, bool):
                return {"Eq": a == b, "Ne": a != b, "BitAnd": a and b, "BitOr": a or b, "BitXor": a != b,
                        "Lt": a < b, "Le": a <= b, "Gt": a > b, "Ge": a >= b}[op]
            za = a if is_sym(a) else z3.BoolVal(a)
            zb = b if is_sym(b) else z3.BoolVal(b)
            r = {"Eq": lambda: za == zb, "Ne": lambda: za != zb, "BitAnd": lambda: z3.And(za, zb),
                 "BitOr": lambda: z3.Or(za, zb), "BitXor": lambda: z3.Xor(za, zb)}.get(op)
            if r is None:
                raise Unsupported("bool op %s" % op)
            return self.norm(r(), None)
        if k in ("int", "char"):
            bits, signed = ta.bits, ta.signed
            if isinstance(a, int) and isinstance(b, int):
                a = int(a)
                b = int(b)
                if op in ("Add", "AddUnchecked"):
                    return wrap_int(a + b, bits, signed)
                if op in ("Sub", "SubUnchecked"):
                    return wrap_int(a - b, bits, signed)
                if op in ("Mul", "MulUnchecked"):
                    return wrap_int(a * b, bits, signed)
                if op == "Div":
                    q = abs(a) // abs(b)
                    return wrap_int(q if (a < 0) == (b < 0) else -q, bits, signed)
                if op == "Rem":
                    r = abs(a) % abs(b)
                    return wrap_int(r if a >= 0 else -r, bits, signed)
                if op == "BitAnd":
                    return wrap_int(a & b, bits, signed)
                if op == "BitOr":
                    return wrap_int(a | b, bits, signed)
                if op == "BitXor":
                    return wrap_int(a ^ b, bits, signed)
                if op in ("Shl", "ShlUnchecked"):
                    return wrap_int(a << (b % bits), bits, signed)
                if op in ("Shr", "ShrUnchecked"):
                    return wrap_int(a >> (b % bits), bits, signed)
                if op == "Eq":
                    return a == b
                if op == "Ne":
                    return a != b
                if op == "Lt":
                    return a < b
                if op == "Le":
                    return a <= b
                if op == "Gt":
                    return a > b
                if op == "Ge":
                    return a >= b
                if op == "Cmp":
                    return Agg(0 if a < b else (1 if a == b else 2), ())
                raise Unsupported("int op %s" % op)
            za = self.to_bv(a, ta)
            zb = self.to_bv(b, ta if op not in ("Shl", "Shr", "ShlUnchecked", "ShrUnchecked") else tb)
            if op in ("Shl", "Shr", "ShlUnchecked", "ShrUnchecked") and zb.size() != bits:
                zb = z3.ZeroExt(bits - zb.size(), zb) if zb.size() < bits else z3.Extract(bits - 1, 0, zb)
            if op in ("Add", "AddUnchecked"):
                r = za + zb
            elif op in ("Sub", "SubUnchecked"):
                r = za - zb
            elif op in ("Mul", "MulUnchecked"):
                r = za * zb
            elif op == "Div":
                r = (za / zb) if signed else z3.UDiv(za, zb)
            elif op == "Rem":
                r = z3.SRem(za, zb) if signed else z3.URem(za, zb)
            elif op == "BitAnd":
                r = za & zb
            elif op == "BitOr":
                r = za | zb
            elif op == "BitXor":
                r = za ^ zb
            elif op in ("Shl", "ShlUnchecked"):
                r = za << zb
            elif op in ("Shr", "ShrUnchecked"):
                r = (za >> zb) if signed else z3.LShR(za, zb)
            elif op == "Eq":
                r = za == zb
            elif op == "Ne":
                r = za != zb
            elif op == "Lt":
                r = (za < zb) if signed else z3.ULT(za, zb)
            elif op == "Le":
                r = (za <= zb) if signed else z3.ULE(za, zb)
            elif op == "Gt":
                r = (za > zb) if signed else z3.UGT(za, zb)
            elif op == "Ge":
                r = (za >= zb) if signed else z3.UGE(za, zb)
            else:
                raise Unsupported("sym int op %s" % op)
            return self.norm(r, ta)
        if k == "float":
            if isinstance(a, float) and isinstance(b, float):
                return {"Lt": a < b, "Le": a <= b, "Gt": a > b, "Ge": a >= b, "Eq": a == b, "Ne": a != b,
                        "Add": a + b, "Sub": a - b, "Mul": a * b}[op]
            return self.float_binop(st, op, a, b)
        if k in ("rawptr", "ref", "fnptr"):
            if op in ("Eq", "Ne"):
                eq = self.ptr_eq(a, b)
                return eq if op == "Eq" else (not eq)
            if op == "Offset":
                return self.ptr_offset(st, a, b)
        raise Unsupported("binop %s on %s" % (op, ta))

    def float_binop(self, st, op, a, b):
        if (is_sym(a) and z3.is_real(a)) or (is_sym(b) and z3.is_real(b)):
            # finite, non-NaN floats abstracted as reals (only comparisons are meaningful)
            from fractions import Fraction
            za = a if is_sym(a) else z3.RealVal(str(Fraction(a)))
            zb = b if is_sym(b) else z3.RealVal(str(Fraction(b)))
            r = {"Lt": lambda: za < zb, "Le": lambda: za <= zb, "Gt": lambda: za > zb, "Ge": lambda: za >= zb,
                 "Eq": lambda: za == zb, "Ne": lambda: za != zb}.get(op)
            if r is None:
                raise Unsupported("real-abstracted float op %s" % op)
            return self.norm(r(), None)
        za = a if is_sym(a) else z3.FPVal(a, z3.Float64())
        zb = b if is_sym(b) else z3.FPVal(b, z3.Float64())
        r = {"Lt": lambda: z3.fpLT(za, zb), "Le": lambda: z3.fpLEQ(za, zb), "Gt": lambda: z3.fpGT(za, zb),
             "Ge": lambda: z3.fpGEQ(za, zb), "Eq": lambda: z3.fpEQ(za, zb), "Ne": lambda: z3.Not(z3.fpEQ(za, zb))}.get(op)
        if r is None:
            raise Unsupported("float op %s" % op)
        return self.norm(r(), None)

    def ptr_eq(self, a, b):
        if isinstance(a, Ptr) and isinstance(b, Ptr):
            return a.cell == b.cell and a.path == b.path
        if isinstance(a, IntPtr) and isinstance(b, IntPtr):
            return a.addr == b.addr
        if isinstance(a, FnPtr) and isinstance(b, FnPtr):
            return a.inst == b.inst
        return False

    def ptr_offset(self, st, p, n):
        n = self.concrete_int(st, n)
        if isinstance(p, Ptr) and p.path and isinstance(p.path[-1], int):
            return Ptr(p.cell, p.path[:-1] + (p.path[-1] + n,), p.meta)
        if n == 0:
            return p
        raise Unsupported("ptr offset %r + %s" % (p, n))

    def checked_binop(self, st, op, a, b, ta):
        bits, signed = ta.bits, ta.signed
        if isinstance(a, int) and isinstance(b, int):
            a = int(a)
            b = int(b)
            exact = {"Add": a + b, "Sub": a - b, "Mul": a * b}[op]
            w = wrap_int(exact, bits, signed)
            return Agg(None, (w, w != exact))
        za = self.to_bv(a, ta)
        zb = self.to_bv(b, ta)
        if op == "Add":
            r = za + zb
            ovf = z3.Not(z3.And(z3.BVAddNoOverflow(za, zb, signed), z3.BVAddNoUnderflow(za, zb) if signed else True))
        elif op == "Sub":
            r = za - zb
            ovf = z3.Not(z3.And(z3.BVSubNoOverflow(za, zb) if signed else True, z3.BVSubNoUnderflow(za, zb, signed)))
        elif op == "Mul":
            r = za * zb
            ovf = z3.Not(z3.And(z3.BVMulNoOverflow(za, zb, signed), z3.BVMulNoUnderflow(za, zb) if signed else True))
        else:
            raise Unsupported("checked %s" % op)
        return Agg(None, (self.norm(r, ta), self.norm(ovf, None)))

    def unop(self, st, op, a, ta):
        if isinstance(a, SymDiscr):
            a = self.resolve_discr(st, a)
        if op == "Not":
            if ta.kind == "bool":
                if isinstance(a, bool):
                    return not a
                return self.norm(z3.Not(a), None)
            if isinstance(a, int):
                return wrap_int(~a, ta.bits, ta.signed)
            return self.norm(~self.to_bv(a, ta), ta)
        if op == "Neg":
            if isinstance(a, int):
                return wrap_int(-a, ta.bits, ta.signed)
            if isinstance(a, float):
                return -a
            return self.norm(-self.to_bv(a, ta), ta)
        if op == "PtrMetadata":
            if isinstance(a, Ptr):
                if a.meta is None:
                    return UNIT
                return a.meta
            if isinstance(a, IntPtr):
                return UNIT
        raise Unsupported("unop %s %r" % (op, a))

    def cast_int(self, st, v, src, dst):
        if isinstance(v, SymDiscr):
            v = self.resolve_discr(st, v)
        if isinstance(v, Poison) or v is UNINIT:
            return Poison("cast")
        if src.kind == "bool" and not is_sym(v):
            v = int(v)
        if dst.kind == "bool":
            raise Unsupported("cast to bool")
        if src.kind == "float" or dst.kind == "float":
            if isinstance(v, (int, float)):
                if dst.kind == "float":
                    return float(v)
                return wrap_int(int(v), dst.bits, dst.signed)
            raise Unsupported("symbolic float cast")
        if isinstance(v, int):
            return wrap_int(v, dst.bits, dst.signed)
        z = self.to_bv(v, src)
        sb, db = z.size(), dst.bits
        if db < sb:
            r = z3.Extract(db - 1, 0, z)
        elif db > sb:
            r = z3.SignExt(db - sb, z) if src.signed else z3.ZeroExt(db - sb, z)
        else:
            r = z
        return self.norm(r, dst)

    # ------------------------------------------------------------------ lazy discriminants
    def variant_of_discr(self, ty, dval):
        for i, vd in enumerate(ty.adt["variants"]):
            if int(vd["discr"]) == dval:
                return i
        return None

    def discr_value(self, ty, vi):
        d = int(ty.adt["variants"][vi]["discr"])
        dt = self.types.get(ty.discr_ty) if ty.discr_ty is not None else None
        if dt is not None and dt.kind == "int":
            return wrap_int(d, dt.bits, dt.signed)
        return d

    def resolve_discr(self, st, v):
        if not isinstance(v, SymDiscr):
            return v
        cur = self.read(st, v.ptr, expand_scalar=False)
        ty = self.types[v.ty]
        if isinstance(cur, Agg) and cur.v is not None:
            return self.discr_value(ty, cur.v)
        if isinstance(cur, Lazy):
            vi = self.lazy.decide_variant(self, st, cur, v.ptr)
            return self.discr_value(ty, vi)
        raise Unsupported("stale lazy discriminant %r" % (cur,))

    # ------------------------------------------------------------------ rvalues
    def eval_rvalue(self, st, fr, rv):
        inst = fr.inst
        (tag, val), = rv.items()
        if tag == "Use":
            return self.eval_operand(st, fr, val[0] if isinstance(val, list) else val)
        if tag == "Ref" or tag == "AddressOf":
            place = val[2] if tag == "Ref" else val[1]
            ptr = self.eval_place(st, fr, place)
            # keep metadata when re-borrowing an unsized place
            proj = place["projection"]
            if proj and proj[-1] == "Deref":
                pass
            pty = self.types[self.place_ty(inst, place)]
            if pty.kind in ("str", "slice", "dyn") and ptr.meta is None:
                if pty.kind == "slice":
                    n = self.seq_len(st, ptr)
                    ptr = ptr.with_meta(n)
            return ptr
        if tag == "Aggregate":
            kind, ops = val
            vals = [self.eval_operand(st, fr, o) for o in ops]
            if kind == "Tuple" or "Array" in kind or "Closure" in kind:
                return Agg(None, vals)
            if "Adt" in kind:
                adt_id, vidx, args, _, active = kind["Adt"]
                # struct vs enum is decided by the destination type (handled by caller via ty)
                return ("ADT", vidx, vals, active)
            if "RawPtr" in kind:
                p, meta = vals
                if isinstance(p, Ptr):
                    if isinstance(meta, int) and not isinstance(meta, bool) and p.path and isinstance(p.path[-1], int):
                        # (element pointer, length) = a sub-slice of the sequence the element lives in
                        i = p.path[-1]
                        return Ptr(p.cell, p.path[:-1] + (("sub", i, i + meta),), meta)
                    return Ptr(p.cell, p.path, None if (isinstance(meta, Agg) and not meta.f) else meta)
                if isinstance(p, IntPtr):
                    return p
                raise Unsupported("rawptr aggregate of %r" % (p,))
            raise Unsupported("aggregate %s" % (kind,))
        if tag == "BinaryOp":
            op, a, b = val
            ta = self.types[self.operand_ty(inst, a)]
            tb = self.types[self.operand_ty(inst, b)]
            va = self.eval_operand(st, fr, a)
            vb = self.eval_operand(st, fr, b)
            return self.binop(st, op, va, vb, ta, tb)
        if tag == "CheckedBinaryOp":
            op, a, b = val
            ta = self.types[self.operand_ty(inst, a)]
            return self.checked_binop(st, op, self.eval_operand(st, fr, a), self.eval_operand(st, fr, b), ta)
        if tag == "UnaryOp":
            op, a = val
            ta = self.types[self.operand_ty(inst, a)]
            return self.unop(st, op, self.eval_operand(st, fr, a), ta)
        if tag == "Discriminant":
            ptr = self.eval_place(st, fr, val)
            v = self.read(st, ptr, expand_scalar=False)
            ty = self.types[self.place_ty(inst, val)]
            if isinstance(v, Lazy):
                if self.types[v.ty].is_enum and not self.lazy.is_eager(self, self.types[v.ty]):
                    return SymDiscr(ptr, v.ty)
                v = self.lazy.expand(self, st, v, ptr, want=None)
            if isinstance(v, Agg) and v.v is not None:
                return self.discr_value(ty, v.v)
            if isinstance(v, Agg) and not ty.is_enum:
                return 0
            if v is UNINIT or isinstance(v, Poison):
                return Poison("discriminant of uninit")
            d = self.discr_hook(st, v, ty)
            if d is not None:
                return d
            raise Unsupported("discriminant of %r : %s" % (v, ty))
        if tag == "Cast":
            kind, op, dty = val
            v = self.eval_operand(st, fr, op)
            return self.cast(st, fr, kind, v, self.operand_ty(inst, op), dty)
        if tag == "Len":
            ptr = self.eval_place(st, fr, val)
            return self.seq_len(st, ptr)
        if tag == "CopyForDeref":
            return self.read(st, self.eval_place(st, fr, val))
        if tag == "Repeat":
            op, n = val
            v = self.eval_operand(st, fr, op)
            cnt = self.const_usize(n)
            return Agg(None, [v] * cnt)
        if tag == "NullaryOp":
            raise Unsupported("nullary op %s" % (val,))
        if tag == "ShallowInitBox":
            raise Unsupported("ShallowInitBox")
        if tag == "ThreadLocalRef":
            raise Unsupported("thread local")
        raise Unsupported("rvalue %s" % tag)

    def discr_hook(self, st, v, ty):
        return None

    def const_usize(self, tyconst):
        k = tyconst["kind"]
        if "Value" in k:
            by = k["Value"][1]["bytes"]
            return self.read_uint(by, 0, len(by))
        raise Unsupported("ty const %s" % k)

    def cast(self, st, fr, kind, v, sty_id, dty_id):
        sty = self.types[sty_id]
        dty = self.types[dty_id]
        if isinstance(kind, dict):
            (ktag, kval), = kind.items()
        else:
            ktag, kval = kind, None
        if ktag in ("IntToInt", "FloatToInt", "IntToFloat", "FloatToFloat"):
            return self.cast_int(st, v, sty, dty)
        if ktag == "PointerCoercion":
            pc = kval if isinstance(kval, str) else list(kval.keys())[0]
            if pc == "ReifyFnPointer":
                fd = self.prog.fndefs.get(sty_id)
                if fd is None or fd.get("fnptr_inst") is None:
                    raise Unsupported("reify %s" % sty)
                return FnPtr(fd["fnptr_inst"])
            if pc == "ClosureFnPointer":
                fd = self.prog.fndefs.get(sty_id)
                if fd is None:
                    raise Unsupported("closure fn pointer")
                return FnPtr(fd["fnptr_inst"], closure=True)
            if pc in ("MutToConstPointer", "UnsafeFnPointer", "ArrayToPointer"):
                return v
            if pc == "Unsize":
                return self.unsize(st, v, sty, dty)
            raise Unsupported("pointer coercion %s" % pc)
        if ktag in ("PtrToPtr", "FnPtrToPtr"):
            if isinstance(v, Ptr):
                dp = self.types[dty.elem] if dty.kind in ("rawptr", "ref") else None
                sp = self.types[sty.elem] if sty.kind in ("rawptr", "ref") else None
                if dp is not None and sp is not None and sp.kind in ("slice", "array", "str") and dp.kind not in ("slice", "str", "dyn", "array"):
                    # thin pointer to the first element of a sequence (only if v really addresses a whole sequence)
                    try:
                        tgt = self.read(st, Ptr(v.cell, v.path), expand_scalar=False)
                    except Unsupported:
                        tgt = None
                    if v.meta is not None or isinstance(tgt, (Agg, VecVal, ByteSeq, str)) and not (v.path and isinstance(v.path[-1], int)):
                        return self.index_ptr(v, 0)
                    return Ptr(v.cell, v.path, None)
                if dp is not None and dp.kind not in ("slice", "str", "dyn") and v.meta is not None:
                    return Ptr(v.cell, v.path, None)
            return v
        if ktag == "Transmute":
            return self.transmute(st, v, sty, dty)
        if ktag in ("PointerExposeAddress", "PointerExposeProvenance"):
            if isinstance(v, IntPtr):
                return v.addr
            if isinstance(v, (Ptr, FnPtr)):
                return PtrAddr(v)  # abstract aligned non-null address
            raise Unsupported("expose %r" % (v,))
        if ktag in ("PointerWithExposedProvenance", "PointerFromExposedAddress"):
            if isinstance(v, PtrAddr):
                return v.ptr
            if isinstance(v, int):
                return IntPtr(v)
            raise Unsupported("int to ptr %r" % (v,))
        raise Unsupported("cast %s" % (kind,))

    def unsize(self, st, v, sty, dty):
        sp = self.types[self.pointee(sty.id)] if (sty.kind in ("ref", "rawptr") or (sty.adt and sty.adt.get("is_box"))) else None
        dp = self.types[self.pointee(dty.id)] if (dty.kind in ("ref", "rawptr") or (dty.adt and dty.adt.get("is_box"))) else None
        if sp is None or dp is None:
            raise Unsupported("unsize %s -> %s" % (sty, dty))
        if sp.kind == "array" and dp.kind == "slice":
            return self.map_ptr(v, lambda p: p.with_meta(sp.len))
        if dp.kind == "dyn":
            return self.map_ptr(v, lambda p: p.with_meta(("vt", sp.id, dp.id)))
        # struct with an unsized tail (e.g. NoDrop<dyn Trait>): coerce the last field
        a, b = sp, dp
        while a.kind == "adt" and b.kind == "adt" and a.is_struct and b.is_struct and a.variant_fields(0) and b.variant_fields(0):
            a = self.types[a.variant_fields(0)[-1]["ty"]]
            b = self.types[b.variant_fields(0)[-1]["ty"]]
            if b.kind == "dyn":
                return self.map_ptr(v, lambda p: p.with_meta(("vt", a.id, b.id)))
            if a.kind == "array" and b.kind == "slice":
                return self.map_ptr(v, lambda p: p.with_meta(a.len))
        raise Unsupported("unsize %s -> %s" % (sty, dty))

    def map_ptr(self, v, f):
        if isinstance(v, Ptr):
            return f(v)
        if isinstance(v, Agg) and v.f:
            return Agg(v.v, (self.map_ptr(v.f[0], f),) + v.f[1:])
        raise Unsupported("map_ptr %r" % (v,))

    def transmute(self, st, v, sty, dty):
        if sty.kind in ("ref", "rawptr", "fnptr") and dty.kind in ("ref", "rawptr", "fnptr"):
            return v
        if sty.kind == dty.kind == "int" and sty.bits == dty.bits:
            return self.cast_int(st, v, sty, dty)
        # single-field wrappers around a pointer (NonNull, Unique, ...)
        if dty.kind == "adt" and sty.kind in ("ref", "rawptr"):
            return self.wrap_like(dty, v)
        if sty.kind == "adt" and dty.kind in ("ref", "rawptr"):
            return self.unwrap_ptr(v)
        if sty.kind in ("ref", "rawptr", "fnptr") and dty.kind == "int":
            if isinstance(v, IntPtr):
                return v.addr
            return PtrAddr(v)
        if sty.kind == "int" and dty.kind in ("ref", "rawptr"):
            if isinstance(v, PtrAddr):
                return v.ptr
            if isinstance(v, int):
                return IntPtr(v)
        if sty.kind in ("int", "bool") and dty.kind == "adt" and dty.is_struct:
            return self.wrap_scalar_like(dty, v)
        if sty.kind == "adt" and sty.is_struct and dty.kind in ("int", "bool"):
            while isinstance(v, Agg) and v.f:
                v = v.f[0]
            return v
        if sty.kind == "int" and dty.kind == "char":
            return v
        if sty.kind == "char" and dty.kind == "int":
            return v
        raise Unsupported("transmute %s -> %s" % (sty, dty))

    def wrap_like(self, ty, ptrv):
        """build a value of (nested single-pointer-field) struct type ty around pointer ptrv"""
        if ty.kind in ("ref", "rawptr", "pat"):
            return ptrv
        if ty.kind == "adt" and ty.is_struct:
            fs = ty.variant_fields(0)
            out = []
            used = False
            for f in fs:
                ft = self.types[f["ty"]]
                if not used and self.contains_ptr(ft):
                    out.append(self.wrap_like(ft, ptrv))
                    used = True
                else:
                    out.append(UNIT)
            return Agg(None, out)
        raise Unsupported("wrap_like %s" % ty)

    def wrap_scalar_like(self, ty, v):
        """value of a (nested) single-scalar-field struct type (Atomic<T>, Cell<T>, UnsafeCell<T> ...) holding scalar v"""
        if ty.kind in ("int", "bool", "char"):
            return v
        if ty.kind == "adt" and ty.is_struct:
            fs = ty.variant_fields(0)
            out = []
            used = False
            for f in fs:
                ft = self.types[f["ty"]]
                if not used and (ft.kind in ("int", "bool", "char") or (ft.kind == "adt" and ft.is_struct and ft.layout and ft.layout["size"]["num_bits"] > 0)):
                    out.append(self.wrap_scalar_like(ft, v))
                    used = True
                else:
                    out.append(UNIT)
            return Agg(None, out)
        raise Unsupported("wrap_scalar_like %s" % ty)

    def contains_ptr(self, t):
        if t.kind in ("ref", "rawptr", "pat"):
            return True
        if t.kind == "adt" and t.is_struct:
            return any(self.contains_ptr(self.types[f["ty"]]) for f in t.variant_fields(0))
        return False

    # ------------------------------------------------------------------ statements
    def exec_statement(self, st, fr, stmt):
        k = stmt["kind"]
        if isinstance(k, str):
            return
        (tag, val), = k.items()
        if tag == "Assign":
            place, rv = val
            v = self.eval_rvalue(st, fr, rv)
            if isinstance(v, tuple) and v and v[0] == "ADT":
                _, vidx, vals, active = v
                dty = self.types[self.place_ty(fr.inst, place)]
                if dty.is_enum:
                    v = Agg(vidx, vals)
                elif dty.is_union:
                    v = Agg(None, [UNINIT] * active + vals)
                else:
                    v = Agg(None, vals)
            ptr = self.eval_place(st, fr, place)
            self.write(st, ptr, v)
            return
        if tag in ("StorageLive", "StorageDead"):
            if tag == "StorageDead":
                st.heap.pop(fr.base + val, None)
            return
        if tag == "SetDiscriminant":
            ptr = self.eval_place(st, fr, val["place"])
            cur = self.read(st, ptr, expand_scalar=False)
            f = cur.f if isinstance(cur, Agg) else ()
            self.write(st, ptr, Agg(val["variant_index"], f))
            return
        if tag in ("FakeRead", "Retag", "PlaceMention", "AscribeUserType", "Coverage", "ConstEvalCounter", "Deinit"):
            return
        if tag == "Intrinsic":
            (itag, ival), = val.items()
            if itag == "Assume":
                c = self.eval_operand(st, fr, ival)
                if is_sym(c):
                    self.add_pc(st, c)
                return
            if itag == "CopyNonOverlapping":
                src = self.eval_operand(st, fr, ival["src"])
                dst = self.eval_operand(st, fr, ival["dst"])
                cnt = self.concrete_int(st, self.eval_operand(st, fr, ival["count"]))
                self.copy_elems(st, src, dst, cnt)
                return
        raise Unsupported("statement %s" % tag)

    def copy_elems(self, st, src, dst, cnt):
        if cnt == 0:
            return
        if cnt == 1:
            self.write(st, dst, self.read(st, src, expand_scalar=False))
            return
        for i in range(cnt):
            s = Ptr(src.cell, src.path[:-1] + (src.path[-1] + i,))
            d = Ptr(dst.cell, dst.path[:-1] + (dst.path[-1] + i,))
            self.write(st, d, self.read(st, s, expand_scalar=False))

    # ------------------------------------------------------------------ calls
    def push_frame(self, st, inst, args, dest, target, unwind, sync=False, call_abi=None):
        if inst.blocks is None:
            raise Unsupported("no body: %s" % inst.name)
        self.functions_run.add(inst.name)
        base = st.next_cell
        st.next_cell += inst.nlocals
        fr = Frame(inst, base, dest, target, unwind, sync)
        n = inst.arg_count
        if inst.spread_arg is not None:
            # callee expects its trailing args packed in a tuple local
            sa = inst.spread_arg
            fixed = sa - 1
            for i in range(fixed):
                st.heap[base + 1 + i] = args[i]
            rest = args[fixed:]
            if call_abi == "RustCall" and len(rest) == 1 and len(args) == n:
                st.heap[base + sa] = rest[0]
            else:
                st.heap[base + sa] = Agg(None, rest)
        else:
            if call_abi == "RustCall" and args:
                last = args[-1]
                if isinstance(last, Lazy):
                    last = self.lazy.expand(self, st, last, None, want=0)
                if isinstance(last, Agg):
                    args = list(args[:-1]) + list(last.f)
            if len(args) != n:
                raise Unsupported("arity mismatch calling %s: %d vs %d" % (inst.name, len(args), n))
            for i, a in enumerate(args):
                st.heap[base + 1 + i] = a
        st.frames.append(fr)
        if len(st.frames) > 400:
            raise Unsupported("call depth")

    def pop_frame(self, st):
        fr = st.frames.pop()
        h = st.heap
        for c in range(fr.base, fr.base + fr.inst.nlocals):
            h.pop(c, None)
        return fr

    def invoke(self, st, inst, args, dest, target, unwind, call_abi=None):
        """perform a call from the current top frame.  Returns None or list of states."""
        if isinstance(inst.kind, dict) and "Virtual" in inst.kind:
            inst = self.resolve_virtual(st, inst, args)
        if inst.is_clone and len(args) == 1 and isinstance(args[0], Ptr):
            r = self.structural_clone(st, inst, args[0])
            if r is not None:
                self.finish_call(st, r[0], dest, target)
                return None
        if inst.model is not None:
            self.models_used.add(inst.name)
            try:
                r = inst.model(self, st, inst, args)
            except PanicExc as p:
                return self.start_panic(st, p, unwind)
            if isinstance(r, Forks):
                out = []
                for (s2, v) in r.alts:
                    if isinstance(v, PanicExc):
                        x = self.start_panic(s2, v, unwind)
                        out.extend(x if x is not None else [s2])
                    else:
                        self.finish_call(s2, v, dest, target)
                        out.append(s2)
                return out
            self.finish_call(st, r, dest, target)
            return None
        if inst.intrinsic:
            from . import intrinsics
            try:
                r = intrinsics.call(self, st, inst, args)
            except PanicExc as p:
                return self.start_panic(st, p, unwind)
            if r is not intrinsics.FALLBACK:
                self.finish_call(st, r, dest, target)
                return None
        if inst.blocks is not None:
            self.push_frame(st, inst, args, dest, target, unwind, call_abi=call_abi)
            return None
        fnshim = self.fn_trait_shim(st, inst, args)
        if fnshim is not None:
            callee, cargs = fnshim
            return self.invoke(st, callee, cargs, dest, target, unwind, None)
        ctor = self.ctor_shim(inst, args)
        if ctor is not None:
            self.finish_call(st, ctor, dest, target)
            return None
        raise Unsupported("no model or body for %s" % inst.name)

    def structural_clone(self, st, inst, ptr):
        """Clone of plain syntax / std data (derived, structural Clone impls outside the code under test):
        a copy of the value as it is, without forcing unexpanded symbolic parts; boxes get fresh cells."""
        if "<impl std::clone::Clone for " in inst.name:
            self_ty = inst.name.split("<impl std::clone::Clone for ", 1)[1][:-len(">::clone")]
        else:
            self_ty = inst.name[1:-len(" as std::clone::Clone>::clone")]
        if self_ty.startswith(("std::rc::Rc<", "std::sync::Arc<")):
            return (self.read(st, ptr, expand_scalar=False),)
        probe = self_ty.replace("darling::ast::NestedMeta", "")
        if "darling" in probe or probe.startswith("h") or "::h" in probe or "RefCell" in probe or "Cell<" in probe:
            cur = self.read(st, ptr, expand_scalar=False)
            if isinstance(cur, Lazy) and not self.drop_is_significant(cur.ty):
                return (cur,)
            return None
        cur = self.read(st, ptr, expand_scalar=False)
        tid = inst.targ(0) if inst.name.startswith("<") else (cur.ty if isinstance(cur, Lazy) else None)
        if tid is not None and self.drop_is_significant(tid):
            return None
        self.models_used.add("<T as Clone>::clone (structural copy of non-darling data)")
        return (self.copy_value(st, cur, 0),)

    def copy_value(self, st, v, depth):
        if depth > 60:
            raise Unsupported("copy_value depth")
        if isinstance(v, Agg):
            return Agg(v.v, [self.copy_value(st, x, depth + 1) for x in v.f])
        if isinstance(v, VecVal):
            return VecVal([self.copy_value(st, x, depth + 1) for x in v.elems])
        if isinstance(v, Ptr) and not v.path and v.cell in st.heap and not (isinstance(v.cell, tuple) and v.cell[0] != "L"):
            # owned allocation (Box contents / lazily created pointee): give the copy its own cell
            inner = st.heap[v.cell]
            if isinstance(v.cell, tuple):
                return v  # lazily named input cell: immutable input, shared
            return Ptr(st.alloc(self.copy_value(st, inner, depth + 1)), (), v.meta)
        return v

    def ctor_shim(self, inst, args):
        """body-less tuple-struct / enum-variant constructor used as a function"""
        if not inst.sig:
            return None
        rt = self.types.get(inst.sig[-1])
        if rt is None or rt.kind != "adt":
            return None
        nm = inst.name
        while nm.endswith(">") and "::<" in nm:        # strip trailing generic arguments (`Initializer::<'_>`)
            depth, i = 0, len(nm) - 1
            while i >= 0:
                if nm[i] == ">":
                    depth += 1
                elif nm[i] == "<":
                    depth -= 1
                    if depth == 0:
                        break
                i -= 1
            if i >= 2 and nm[i - 2:i] == "::":
                nm = nm[:i - 2]
            else:
                break
        last = nm.rsplit("::", 1)[-1]
        for i, v in enumerate(rt.adt["variants"]):
            if (v["name"] == last or (not rt.is_enum and rt.adt["name"].rsplit("::", 1)[-1] == last)) and len(v["fields"]) == len(args):
                return Agg(i if rt.is_enum else None, args)
        return None

    def fn_trait_shim(self, st, inst, args):
        """body-less `<F as Fn*>::call*` where F is a fn item or fn pointer: call F with the spread tuple"""
        n = inst.name
        if not (n.startswith("<") and ("as std::ops::Fn" in n) and ("::call" in n)):
            return None
        self_ty = self.types.get(inst.targ(0))
        if self_ty is None:
            return None
        f = args[0]
        if isinstance(f, Ptr):
            f = self.read(st, f)
        if self_ty.kind == "fndef":
            fd = self.prog.fndefs.get(self_ty.id)
            if fd is None or fd["inst"] is None:
                return None
            callee = self.prog.insts[fd["inst"]]
        elif isinstance(f, FnPtr):
            callee = self.prog.insts[f.inst]
        else:
            return None
        tup = args[1] if len(args) > 1 else UNIT
        if isinstance(tup, Lazy):
            tup = self.lazy.expand(self, st, tup, None, want=0)
        return callee, list(tup.f) if isinstance(tup, Agg) else []

    def finish_call(self, st, v, dest, target):
        fr = st.frames[-1]
        if target is None:
            raise Unsupported("return from diverging call")
        if dest is not None:
            self.write(st, dest, v)
        fr.bb = target
        fr.si = 0

    def resolve_virtual(self, st, inst, args):
        recv = args[0]
        p = recv
        while isinstance(p, Agg) and p.f:
            p = p.f[0]
        if not isinstance(p, Ptr) or not (isinstance(p.meta, tuple) and p.meta[0] == "vt"):
            raise Unsupported("virtual call on %r" % (recv,))
        key = "%d:%d" % (p.meta[1], p.meta[2])
        vt = self.prog.vtables.get(key)
        if vt is None:
            raise Unsupported("no vtable %s" % key)
        idx = inst.kind["Virtual"]["idx"]
        target = vt["entries"][idx]
        if target is None:
            raise Unsupported("vtable slot %d empty" % idx)
        return self.prog.insts[target]

    # ------------------------------------------------------------------ panics / unwinding
    def start_panic(self, st, p, unwind):
        """a panic raised by the call terminator of the top frame"""
        if st.unwinding or p.nounwind:
            st.panics.append(p.msg)
            st.status = "abort"
            st.info = "panic while unwinding: %s" % (p.msg,) if st.unwinding else "non-unwinding panic: %s" % (p.msg,)
            self.record_leaf(st)
            return []
        st.panics.append(p.msg)
        st.unwinding = True
        return self.do_unwind(st, unwind)

    def do_unwind(self, st, action):
        """continue unwinding given the unwind action of the top frame's current terminator"""
        while True:
            if isinstance(action, dict) and "Cleanup" in action:
                fr = st.frames[-1]
                fr.bb = action["Cleanup"]
                fr.si = 0
                return None
            if action == "Terminate":
                st.status = "abort"
                st.info = "unwind reached a nounwind frame"
                self.record_leaf(st)
                return []
            if action == "Unreachable":
                raise Unsupported("unwind through Unreachable action")
            # Continue: pop frame and keep unwinding at the caller
            fr = self.pop_frame(st)
            if fr.sync or not st.frames:
                return None  # run loop notices depth / unwinding
            action = fr.unwind

    def record_leaf(self, st):
        self.leaves.append(st)
        return True

    # ------------------------------------------------------------------ terminators
    def exec_terminator(self, st, fr, term):
        k = term["kind"]
        if isinstance(k, str):
            if k == "Return":
                return self.do_return(st)
            if k == "Resume":
                f = self.pop_frame(st)
                if f.sync or not st.frames:
                    return None
                return self.do_unwind(st, f.unwind)
            if k == "Unreachable":
                raise Unsupported("reached Unreachable terminator in %s" % fr.inst.name)
            if k == "Abort":
                st.status = "abort"
                st.info = "Abort terminator"
                self.record_leaf(st)
                return []
            raise Unsupported("terminator %s" % k)
        (tag, val), = k.items()
        if tag == "Goto":
            fr.bb = val["target"]
            fr.si = 0
            return None
        if tag == "SwitchInt":
            return self.do_switch(st, fr, val)
        if tag == "Call":
            return self.do_call(st, fr, val)
        if tag == "Drop":
            return self.do_drop(st, fr, val)
        if tag == "Assert":
            return self.do_assert(st, fr, val)
        raise Unsupported("terminator %s" % tag)

    def do_return(self, st):
        fr = st.frames[-1]
        rv = st.heap.get(fr.base, UNIT)
        self.pop_frame(st)
        if fr.sync or not st.frames:
            st.ret = rv
            return None
        caller = st.frames[-1]
        if fr.dest is not None:
            self.write(st, fr.dest, rv)
        if fr.target is None:
            raise Unsupported("return to diverging call site")
        caller.bb = fr.target
        caller.si = 0
        return None

    def do_switch(self, st, fr, val):
        d = self.eval_operand(st, fr, val["discr"])
        branches = val["targets"]["branches"]
        otherwise = val["targets"]["otherwise"]
        if isinstance(d, SymDiscr):
            return self.switch_lazy(st, fr, d, branches, otherwise)
        if isinstance(d, bool):
            d = int(d)
        if isinstance(d, int):
            dtid = self.operand_ty(fr.inst, val["discr"])
            bits = self.types[dtid].bits if dtid is not None else 8
            du = d & ((1 << bits) - 1) if bits else d
            for bv, bb in branches:
                if bv == du:
                    fr.bb = bb
                    fr.si = 0
                    return None
            fr.bb = otherwise
            fr.si = 0
            return None
        if isinstance(d, Poison) or d is UNINIT:
            raise Unsupported("switch on uninitialised value in %s" % fr.inst.name)
        if not is_sym(d):
            raise Unsupported("switch on %r" % (d,))
        # symbolic: fork per feasible target
        alts = []
        if z3.is_bool(d):
            conds = []
            for bv, bb in branches:
                c = z3.Not(d) if bv == 0 else d
                conds.append((c, bb))
            oc = z3.And([z3.Not(c) for c, _ in conds]) if conds else True
        else:
            conds = [(d == z3.BitVecVal(bv, d.size()), bb) for bv, bb in branches]
            oc = z3.And([z3.Not(c) for c, _ in conds]) if conds else True
        for c, bb in conds + [(oc, otherwise)]:
            c2 = z3.simplify(c) if is_sym(c) else c
            if z3.is_false(c2) if is_sym(c2) else (c2 is False):
                continue
            if self.feasible(st, c2):
                alts.append((c2, bb))
        if not alts:
            st.status = "infeasible"
            return []
        st.branches += 1
        if len(alts) == 1:
            c, bb = alts[0]
            if is_sym(c) and not z3.is_true(c):
                self.add_pc(st, c)
            fr.bb = bb
            fr.si = 0
            return None
        out = []
        self.stats["forks"] += len(alts) - 1
        for c, bb in alts:
            s2 = st.fork()
            if is_sym(c) and not z3.is_true(c):
                self.add_pc(s2, c)
            f2 = s2.frames[-1]
            f2.bb = bb
            f2.si = 0
            out.append(s2)
        return out

    def switch_lazy(self, st, fr, d, branches, otherwise):
        cur = self.read(st, d.ptr, expand_scalar=False)
        ty = self.types[d.ty]
        if not isinstance(cur, Lazy):
            dv = self.resolve_discr(st, d)
            for bv, bb in branches:
                if wrap_int(bv, 128, False) == (dv & ((1 << 128) - 1)) or bv == dv:
                    fr.bb = bb
                    fr.si = 0
                    return None
            fr.bb = otherwise
            fr.si = 0
            return None
        allowed = self.lazy.allowed_variants(self, st, cur)
        dec = st.decisions.get(cur.name + "#d")
        if not cur.excl and dec is None:
            self.domains.setdefault(cur.name + "#d", sorted(allowed))
        alts = []
        named = set()
        for bv, bb in branches:
            vi = None
            for i in allowed | set(range(len(ty.adt["variants"]))):
                if (self.discr_value(ty, i) & ((1 << 128) - 1)) == bv:
                    vi = i
            if vi is None:
                continue
            named.add(vi)
            if vi in allowed:
                alts.append((vi, bb))
        rest = allowed - named
        out = []
        st.branches += 1
        for vi, bb in alts:
            if dec is not None and dec != vi:
                continue
            s2 = st.fork()
            self.lazy.concretise_variant(self, s2, cur, d.ptr, vi)
            f2 = s2.frames[-1]
            f2.bb = bb
            f2.si = 0
            out.append(s2)
        if rest and (dec is None or dec in rest):
            s2 = st.fork()
            if len(rest) == 1:
                self.lazy.concretise_variant(self, s2, cur, d.ptr, next(iter(rest)))
            else:
                self.lazy.exclude_variants(self, s2, cur, d.ptr, named)
            f2 = s2.frames[-1]
            f2.bb = otherwise
            f2.si = 0
            out.append(s2)
        self.stats["forks"] += max(0, len(out) - 1)
        return out

    def do_call(self, st, fr, val):
        func = val["func"]
        inst = fr.inst
        call_abi = None
        if "Constant" in func:
            fty = func["Constant"]["const_"]["ty"]
            fd = self.prog.fndefs.get(fty)
            if fd is None or fd["inst"] is None:
                raise Unsupported("unresolved callee %s" % self.types[fty])
            callee = self.prog.insts[fd["inst"]]
            call_abi = fd.get("abi")
        else:
            fv = self.eval_operand(st, fr, func)
            fty = self.types[self.operand_ty(inst, func)]
            if not isinstance(fv, FnPtr) and fty.kind == "fndef":
                # a zero-sized fn item held in a local (fn-item `Fn*` shims, e.g. an enum constructor used as a closure)
                fd = self.prog.fndefs.get(fty.id)
                if fd is None or fd["inst"] is None:
                    raise Unsupported("unresolved fn item %s" % fty)
                callee = self.prog.insts[fd["inst"]]
                call_abi = fd.get("abi")
            else:
                if not isinstance(fv, FnPtr):
                    raise Unsupported("call through %r" % (fv,))
                callee = self.prog.insts[fv.inst]
                if fty.fnsig:
                    call_abi = fty.fnsig.get("abi")
        args = [self.eval_operand(st, fr, a) for a in val["args"]]
        if "Constant" not in func and isinstance(fv, FnPtr) and fv.closure:
            args = [UNIT] + args
        dest = self.eval_place(st, fr, val["destination"])
        return self.invoke(st, callee, args, dest, val["target"], val["unwind"], call_abi)

    def drop_is_significant(self, tid):
        r = self._sig_drop.get(tid)
        if r is not None:
            return r
        self._sig_drop[tid] = False  # cycle guard
        t = self.types[tid]
        r = False
        if t.kind == "adt":
            nm = t.adt["name"]
            if self.policy is not None and self.policy.has_drop_impl(nm):
                r = True
            else:
                for v in t.adt["variants"]:
                    for f in v["fields"]:
                        if self.drop_is_significant(f["ty"]):
                            r = True
                for a in t.adt.get("args", []):
                    if a is not None and self.drop_is_significant(a):
                        r = True
        elif t.kind in ("tuple",):
            r = any(self.drop_is_significant(x) for x in t.tys)
        elif t.kind in ("array", "slice"):
            r = self.drop_is_significant(t.elem)
        elif t.kind == "closure":
            r = False
        self._sig_drop[tid] = r
        return r

    def do_drop(self, st, fr, val):
        tid = self.place_ty(fr.inst, val["place"])
        d = self.prog.drops.get(tid)
        if d is None or d["empty"] or not self.drop_is_significant(tid):
            fr.bb = val["target"]
            fr.si = 0
            return None
        glue = self.prog.insts[d["inst"]]
        ptr = self.eval_place(st, fr, val["place"])
        cur = self.read(st, ptr, expand_scalar=False)
        if cur is UNINIT:
            fr.bb = val["target"]
            fr.si = 0
            return None
        return self.invoke(st, glue, [ptr], None, val["target"], val["unwind"])

    def do_assert(self, st, fr, val):
        c = self.eval_operand(st, fr, val["cond"])
        exp = val["expected"]
        if isinstance(c, Poison) or c is UNINIT:
            raise Unsupported("assert on uninitialised")
        if isinstance(c, (bool, int)):
            if bool(c) == exp:
                fr.bb = val["target"]
                fr.si = 0
                return None
            return self.start_panic(st, PanicExc(self.assert_msg(val["msg"])), val["unwind"])
        ok = c if exp else z3.Not(c)
        bad = z3.Not(ok)
        out = []
        f_ok = self.feasible(st, ok)
        f_bad = self.feasible(st, bad)
        st.branches += 1
        if f_ok and not f_bad:
            fr.bb = val["target"]
            fr.si = 0
            return None
        if f_ok:
            s2 = st.fork()
            self.add_pc(s2, ok)
            f2 = s2.frames[-1]
            f2.bb = val["target"]
            f2.si = 0
            out.append(s2)
        if f_bad:
            s3 = st.fork() if f_ok else st
            self.add_pc(s3, bad)
            r = self.start_panic(s3, PanicExc(self.assert_msg(val["msg"])), val["unwind"])
            if r is None:
                out.append(s3)
            else:
                out.extend(r)
        return out

    def assert_msg(self, m):
        if isinstance(m, str):
            return m
        (tag, v), = m.items()
        if tag == "Overflow":
            return "attempt to %s with overflow" % {"Add": "add", "Sub": "subtract", "Mul": "multiply", "Div": "divide",
                                                     "Rem": "calculate the remainder", "Shl": "shift left",
                                                     "Shr": "shift right"}.get(v[0], v[0])
        return {"BoundsCheck": "index out of bounds", "OverflowNeg": "attempt to negate with overflow",
                "DivisionByZero": "attempt to divide by zero",
                "RemainderByZero": "attempt to calculate the remainder with a divisor of zero",
                "MisalignedPointerDereference": "misaligned pointer dereference",
                "NullPointerDereference": "null pointer dereference occurred"}.get(tag, tag)

    # ------------------------------------------------------------------ main loops
    def step(self, st):
        self._cur_st = st
        fr = st.frames[-1]
        inst = fr.inst
        blk = inst.blocks[fr.bb]
        stmts = blk["statements"]
        st.steps += 1
        try:
            if fr.si < len(stmts):
                self.exec_statement(st, fr, stmts[fr.si])
                fr.si += 1
                return None
            return self.exec_terminator(st, fr, blk["terminator"])
        except NeedFork as nf:
            self.domains[nf.name] = list(nf.choices)
            out = []
            for ch in nf.choices:
                s2 = st.fork()
                s2.decisions[nf.name] = ch
                if nf.constraint is not None:
                    c = nf.constraint(ch)
                    if c is not None:
                        self.add_pc(s2, c)
                out.append(s2)
            self.stats["forks"] += max(0, len(out) - 1)
            st.branches += 1
            return out

    def run_to_depth(self, st, depth):
        """run until the stack is back to `depth` frames; returns the resulting states"""
        out = []
        work = [st]
        cap = int(os.environ.get("MIRSYM_MAXLEAVES", "0")) if depth == 0 else 0
        while work:
            if cap and len(out) + len(self.leaves) >= cap:
                break       # debugging aid only: never set by a registered check
            s = work.pop()
            while True:
                if s.status is not None:
                    break
                if len(s.frames) <= depth:
                    out.append(s)
                    if depth == 0 and os.environ.get("MIRSYM_PROGRESS") and len(out) % int(os.environ["MIRSYM_PROGRESS"]) == 0:
                        ks = sorted(s.decisions)
                        print("  [progress] %d leaves, work %d, %d decisions, longest key %d chars: ...%s" % (
                            len(out), len(work), len(ks), max([len(k) for k in ks] or [0]), (max(ks, key=len)[-90:] if ks else "")), flush=True)
                    break
                if s.steps > self.max_steps:
                    s.status = "budget"
                    s.info = "step budget exceeded in %s" % s.frames[-1].inst.name
                    self.record_leaf(s)
                    break
                try:
                    succ = self.step(s)
                except (KeyError, IndexError, AttributeError, TypeError, ValueError, RecursionError, z3.Z3Exception) as ex:
                    import traceback
                    tb = traceback.format_exc().strip().splitlines()
                    s.status = "unsupported"
                    fr = s.frames[-1] if s.frames else None
                    s.info = "internal %s: %s @ %s [in %s bb%d]" % (type(ex).__name__, ex, tb[-3].strip() if len(tb) >= 3 else "", fr.inst.name if fr else "?", fr.bb if fr else -1)
                    self.unsupported[s.info[:200]] = self.unsupported.get(s.info[:200], 0) + 1
                    self.record_leaf(s)
                    break
                except Unsupported as u:
                    s.status = "unsupported"
                    fr = s.frames[-1] if s.frames else None
                    s.info = "%s [in %s bb%d]" % (u, fr.inst.name if fr else "?", fr.bb if fr else -1)
                    if os.environ.get("MIRSYM_STACK"):
                        s.info += " STACK: " + " <- ".join(f.inst.name[:90] for f in reversed(s.frames[-8:]))
                    self.unsupported[str(u)[:200]] = self.unsupported.get(str(u)[:200], 0) + 1
                    self.record_leaf(s)
                    break
                if succ is None:
                    continue
                work.extend(succ)
                break
        self.stats["steps"] += sum(0 for _ in out)
        return out

    def box_ret_ty(self, inst):
        if inst.sig:
            return inst.sig[-1]
        if inst.local_tys:
            return inst.local_tys[0]
        raise Unsupported("no return type known for %s" % inst.name)

    def values_equal(self, st, a, b):
        if isinstance(a, (int, bool)) and isinstance(b, (int, bool)):
            return a == b
        if isinstance(a, Agg) and isinstance(b, Agg):
            if a.v != b.v or len(a.f) != len(b.f):
                return False
            r = True
            for x, y in zip(a.f, b.f):
                e = self.values_equal(st, x, y)
                if e is False:
                    return False
                if e is not True:
                    r = e if r is True else z3.And(r, e)
            return r
        if is_sym(a) or is_sym(b):
            if isinstance(a, (int, bool)):
                a = z3.BitVecVal(int(a), b.size()) if z3.is_bv(b) else z3.BoolVal(bool(a))
            if isinstance(b, (int, bool)):
                b = z3.BitVecVal(int(b), a.size()) if z3.is_bv(a) else z3.BoolVal(bool(b))
            return self.norm(a == b, None)
        if isinstance(a, (Ptr, IntPtr, FnPtr)):
            return self.ptr_eq(a, b)
        raise Unsupported("values_equal %r %r" % (a, b))

    def call_sync(self, st, inst, args):
        """run inst(args) to completion from inside a model.
        Returns list of (state, value | PanicExc).  States that die (abort/unsupported) are recorded as leaves."""
        if inst.model is not None or (inst.blocks is None):
            depth = len(st.frames)
            # run via a tiny trampoline frame-less invoke
            self.models_used.add(inst.name)
            if inst.model is None:
                if inst.intrinsic:
                    from . import intrinsics
                    return [(st, intrinsics.call(self, st, inst, args))]
                raise Unsupported("call_sync: no body/model for %s" % inst.name)
            try:
                r = inst.model(self, st, inst, args)
            except PanicExc as p:
                return [(st, p)]
            if isinstance(r, Forks):
                return list(r.alts)
            return [(st, r)]
        depth = len(st.frames)
        was_unwinding = st.unwinding
        self.push_frame(st, inst, args, None, None, "Continue", sync=True)
        res = []
        for s in self.run_to_depth(st, depth):
            if s.unwinding and not was_unwinding:
                # unwound out of the sync frame
                msg = s.panics[-1]
                s.unwinding = False
                s.panics = s.panics[:-1]
                res.append((s, PanicExc(msg)))
            else:
                v = s.ret
                s.ret = None
                res.append((s, v))
        return res

    def explore(self, inst, args, st=None):
        """explore all paths of inst(args); returns list of leaf states"""
        self.leaves = []
        if st is None:
            st = State()
        self.push_frame(st, inst, args, None, None, "Continue", sync=True)
        for s in self.run_to_depth(st, 0):
            if s.unwinding:
                s.status = "panicked"
            else:
                s.status = "returned"
            self.leaves.append(s)
        for s in self.leaves:
            self.stats["steps"] += s.steps
        return self.leaves
