from .program import Program
from .core import Interp, State, Unsupported, PanicExc, NeedFork, Forks
from .values import *
from . import models, lazy
