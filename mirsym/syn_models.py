"""Models and lazy constructors for proc_macro2 / syn / quote values (external crates, not under test).

Span  = Opaque('Span', origin)      origin: ('in', input-name) | ('call_site',) | ('join', a, b) ...
Ident = Opaque('Ident', (string content, span origin))
"""
import re
import z3

from .values import *
from .core import Unsupported, PanicExc, Forks, NeedFork
from .lazy import Policy
from .models import model, str_of, scat, seq_eq, tosym, StringVal, new_str_ptr, mk_option, NONE, fmt_append, OK_UNIT

CALL_SITE = Opaque("Span", ("call_site",))


class SynPolicy(Policy):
    EAGER = ("proc_macro2::Span", "proc_macro2::Ident")

    def is_eager(self, n):
        return n in self.EAGER

    def custom(self, I, st, lz, t):
        if t.kind != "adt":
            return None
        n = t.adt["name"]
        if n == "proc_macro2::Span":
            return Opaque("Span", ("in", lz.name))
        if n == "proc_macro2::Ident":
            return Opaque("Ident", (self.ident_str(I, st, lz.name), ("in", lz.name)))
        return None

    def ident_str(self, I, st, name):
        m = re.match(r"^pq\((.*)\)\.Ok\.0\.segments\[(\d+)\]\.ident$", name)
        if m:
            return [x for x in m.group(1).split("::") if x][int(m.group(2))]      # parse_quote!(a::b): the path it spells
        return z3.String(name + ".sym")

    def display(self, I, st, ptr, t, kind):
        n = t.adt["name"]
        if n == "proc_macro2::Ident":
            v = I.read(st, ptr)
            return [(st, v.data[0])]
        return None


def span_of(v):
    if isinstance(v, Opaque) and v.kind == "Span":
        return v
    raise Unsupported("not a span: %r" % (v,))


@model("proc_macro2::Span::call_site", "proc_macro2::Span::mixed_site", "proc_macro2::Span::def_site")
def m_span_call_site(I, st, inst, args):
    return CALL_SITE


@model("<proc_macro2::Span as std::clone::Clone>::clone")
def m_span_clone(I, st, inst, args):
    return I.read(st, args[0])


@model("<proc_macro2::Ident as syn::spanned::Spanned>::span", "proc_macro2::Ident::span", "<proc_macro2::Ident as quote::spanned::Spanned>::__span")
def m_ident_span(I, st, inst, args):
    v = I.read(st, args[0])
    return Opaque("Span", v.data[1])


@model("<proc_macro2::Ident as std::clone::Clone>::clone")
def m_ident_clone(I, st, inst, args):
    return I.read(st, args[0])


@model("<proc_macro2::Ident as std::fmt::Display>::fmt")
def m_ident_display(I, st, inst, args):
    v = I.read(st, args[0])
    fmt_append(I, st, args[1], v.data[0])
    return OK_UNIT


@model("<proc_macro2::Ident as std::cmp::PartialEq>::eq")
def m_ident_eq(I, st, inst, args):
    a = I.read(st, args[0])
    b = I.read(st, args[1])
    return seq_eq(I, st, a.data[0], b.data[0])


@model("<proc_macro2::Ident as std::cmp::PartialEq<*>>::eq")
def m_ident_eq_str(I, st, inst, args):
    a = I.read(st, args[0])
    return seq_eq(I, st, a.data[0], str_of(I, st, args[1]))


@model("proc_macro2::Ident::new")
def m_ident_new(I, st, inst, args):
    return Opaque("Ident", (str_of(I, st, args[0]), span_of(args[1]).data))


# ---------------------------------------------------------------------------- lazy constructors for syn values
LIT_KINDS = ("syn::LitStr", "syn::LitByteStr", "syn::LitCStr", "syn::LitByte", "syn::LitChar", "syn::LitInt", "syn::LitFloat")


def _syn_custom(self, I, st, lz, t):
    if t.kind != "adt":
        return None
    n = t.adt["name"]
    name = lz.name
    if n == "proc_macro2::Span":
        return Opaque("Span", ("in", name))
    if n == "proc_macro2::Ident":
        return Opaque("Ident", (self.ident_str(I, st, name), ("in", name)))
    if n == "proc_macro2::TokenStream":
        return Opaque("TokenStream", ("in", name))
    if n == "proc_macro2::Literal":
        return Opaque("Literal", ("in", name))
    if n in ("proc_macro2::extra::DelimSpan", "proc_macro2::Group", "proc_macro2::Punct", "proc_macro2::TokenTree"):
        return Opaque(n.split("::")[-1], ("in", name))
    if n in LIT_KINDS:
        return Opaque(n.split("::")[-1], ("in", name))
    if n == "syn::Error":
        return Opaque("SynError", ((("in", name + ".span"), z3.String(name + ".msg")),))
    if n == "syn::punctuated::Punctuated":
        return self.lazy_punctuated(I, st, lz, t)
    return None


def _lazy_punctuated(self, I, st, lz, t):
    from .lazy import decide_len
    name = lz.name
    lo, hi = self.len_bounds(I, st, name, t)
    n = decide_len(I, st, name, lo, hi)
    fs = t.variant_fields(0)
    inner_t = I.types[fs[0]["ty"]]           # Vec<(T, P)>
    last_t = I.types[fs[1]["ty"]]            # Option<Box<T>>
    pair_t = I.types[inner_t.adt["args"][0]]
    elem_ty, punct_ty = pair_t.tys
    pairs = [Agg(None, (Lazy("%s[%d]" % (name, i), elem_ty), Lazy("%s.p[%d]" % (name, i), punct_ty))) for i in range(max(0, n - 1))]
    if n == 0:
        last = Agg(0, ())
    else:
        box_t = I.types[last_t.adt["variants"][1]["fields"][0]["ty"]]
        key = ("L", "%s[%d]" % (name, n - 1))
        if key not in st.heap:
            st.heap[key] = Lazy("%s[%d]" % (name, n - 1), elem_ty)
        last = Agg(1, (I.wrap_like(box_t, Ptr(key)),))
    return Agg(None, (VecVal(pairs), last))


SynPolicy.custom = _syn_custom
SynPolicy.lazy_punctuated = _lazy_punctuated
SynPolicy.EAGER = ("proc_macro2::Span", "proc_macro2::Ident", "proc_macro2::TokenStream", "proc_macro2::Literal",
                   "proc_macro2::extra::DelimSpan", "proc_macro2::Group", "proc_macro2::Punct", "proc_macro2::TokenTree",
                   "syn::Error") + LIT_KINDS


def origin_of(v):
    if isinstance(v, Opaque) and isinstance(v.data, tuple) and v.data and v.data[0] in ("in", "call_site", "node", "cover"):
        return v.data
    if isinstance(v, Opaque) and v.kind == "Ident":
        return v.data[1]
    if isinstance(v, Opaque) and v.kind == "LitStr" and isinstance(v.data, tuple) and v.data and v.data[0] == "new":
        return v.data[2]      # LitStr::new(text, span): the span it was given
    return None


def leaf_origins(I, st, v, out, depth=0):
    """collect origin names of all token leaves inside value v (in structural order)"""
    if depth > 30:
        return
    if isinstance(v, Lazy):
        out.append(("node", v.name))
    elif isinstance(v, Opaque):
        if v.kind == "SynError":
            return
        o = origin_of(v)
        if o is not None and o[0] != "call_site":
            out.append(o)
    elif isinstance(v, Agg):
        for x in v.f:
            leaf_origins(I, st, x, out, depth + 1)
    elif isinstance(v, VecVal):
        for x in v.elems:
            leaf_origins(I, st, x, out, depth + 1)
    elif isinstance(v, Ptr):
        try:
            leaf_origins(I, st, I.read(st, v, expand_scalar=False), out, depth + 1)
        except Unsupported:
            pass


def common_prefix(names):
    if not names:
        return None
    parts = [split_name(n) for n in names]
    pre = parts[0]
    for p in parts[1:]:
        k = 0
        while k < len(pre) and k < len(p) and pre[k] == p[k]:
            k += 1
        pre = pre[:k]
    return "".join(pre) if pre else None


def split_name(n):
    """split a lazy name into components ('.field', '[i]', '*')"""
    out = []
    cur = ""
    for ch in n:
        if ch in ".[*":
            if cur:
                out.append(cur)
            cur = ch
        else:
            cur += ch
    if cur:
        out.append(cur)
    return out


def node_span(I, st, ptr):
    """span of the syntax node *ptr: the input node it is (or the smallest input node covering its tokens)"""
    v = I.read(st, ptr, expand_scalar=False)
    if isinstance(v, Lazy):
        return Opaque("Span", ("node", v.name))
    if isinstance(v, Opaque):
        o = origin_of(v)
        if o is not None:
            return Opaque("Span", o if o[0] != "in" else ("node", o[1]))
    if isinstance(ptr.cell, tuple) and ptr.cell[0] == "L" and not ptr.path:
        return Opaque("Span", ("node", ptr.cell[1]))
    outs = []
    leaf_origins(I, st, v, outs)
    names = [o[1] for o in outs if o[0] in ("in", "node")]
    cp = common_prefix(names)
    if cp is None:
        return CALL_SITE
    return Opaque("Span", ("node", cp))


@model("<* as syn::spanned::Spanned>::span", "<* as quote::spanned::Spanned>::__span")
def m_spanned_span(I, st, inst, args):
    p = args[0]
    t = I.types.get(inst.targ(0))
    # Spanned for &T: look through the reference
    while t is not None and t.kind == "ref":
        p = I.read(st, p)
        t = I.types[t.elem]
    return node_span(I, st, p)


@model("<proc_macro2::TokenStream as std::clone::Clone>::clone", "<proc_macro2::Literal as std::clone::Clone>::clone",
       "<syn::LitStr as std::clone::Clone>::clone", "<syn::LitInt as std::clone::Clone>::clone", "<syn::LitChar as std::clone::Clone>::clone",
       "<syn::LitFloat as std::clone::Clone>::clone", "<syn::LitByteStr as std::clone::Clone>::clone", "<syn::LitByte as std::clone::Clone>::clone",
       "<syn::LitCStr as std::clone::Clone>::clone", "<syn::Error as std::clone::Clone>::clone", "<proc_macro2::extra::DelimSpan as std::clone::Clone>::clone",
       "<proc_macro2::Group as std::clone::Clone>::clone", "<proc_macro2::Punct as std::clone::Clone>::clone", "<proc_macro2::TokenTree as std::clone::Clone>::clone")
def m_opaque_clone(I, st, inst, args):
    return I.read(st, args[0])


# ---------------------------------------------------------------------------- parsing (uninterpreted outcomes)
@model("<* as syn::parse::Parser>::parse2", "<* as syn::parse::Parser>::parse_str")
def m_parser_parse2(I, st, inst, args):
    src = args[1]
    if isinstance(src, Opaque) and src.kind == "TokenStream" and src.data[0] == "toks" and not src.data[1]:
        # an empty stream parses to an empty list
        name = "parse(empty)"
        st.decisions[name + "#d"] = 0
        st.decisions[name + ".Ok.0#len"] = 0
        I.domains.setdefault(name + "#d", [0])
        I.domains.setdefault(name + ".Ok.0#len", [0])
        return Lazy(name, inst.sig[-1])
    if isinstance(src, Opaque) and src.kind == "TokenStream" and src.data[0] == "in":
        name = src.data[1] + ".parsed"
    elif isinstance(src, Opaque) and src.data[0] == "toks" and "ParseQuote" in inst.name and all(t[0] in ("i", "p") and isinstance(t[1], str) for t in src.data[1]):
        # parse_quote! of literal tokens (`parse_quote!(darling)`): the text is known; a plain path gets its shape fixed
        text = "".join(t[1] for t in src.data[1])
        name = "pq(%s)" % text
        if "<syn::Path as" in inst.name and re.fullmatch(r"(::)?[A-Za-z_][A-Za-z0-9_]*(::[A-Za-z_][A-Za-z0-9_]*)*", text):
            segs = [x for x in text.split("::") if x]
            base = name + ".Ok.0"
            pre = {name + "#d": 0, base + ".leading_colon#d": 1 if text.startswith("::") else 0, base + ".segments#len": len(segs)}
            for i, sg in enumerate(segs):
                pre["%s.segments[%d].arguments#d" % (base, i)] = 0      # the identifiers are concrete: SynPolicy.ident_str reads them off the name
            for k, v in pre.items():
                st.decisions.setdefault(k, v)
                I.domains.setdefault(k, [v])
        else:
            st.decisions.setdefault(name + "#d", 0)
            I.domains.setdefault(name + "#d", [0])
    elif isinstance(src, Opaque) and src.data[0] == "toks" and "ParseQuote" in inst.name:
        # parse_quote! of interpolated tokens: well-formed by construction of the macro (it panics otherwise: outside the claim)
        name = "pq#%d" % (st.extra.get("pqn", 0))
        st.extra["pqn"] = st.extra.get("pqn", 0) + 1
        st.decisions.setdefault(name + "#d", 0)
        I.domains.setdefault(name + "#d", [0])
    elif isinstance(src, Opaque):
        name = "parse(%s)" % (src.data,)
    else:
        raise Unsupported("parse2 of %r" % (src,))
    return Lazy(name, inst.sig[-1])


def _short_ty(I, tid):
    t = I.types[tid]
    return (t.str or "?").replace("std::result::Result<", "").split(", syn::Error")[0].replace("syn::", "").replace(" ", "")


@model("syn::LitStr::parse::<*>", "syn::LitStr::parse_with::<*>")
def m_litstr_parse(I, st, inst, args):
    """parsing the contents of a string literal as T: an uninterpreted outcome per (literal, T) - Ok(a fresh symbolic T) or Err"""
    v = I.read(st, args[0])
    if isinstance(v, Opaque) and v.data and v.data[0] == "in":
        origin = v.data[1]
    elif isinstance(v, Opaque) and v.data and v.data[0] == "new":
        origin = "new(%s)" % (tosym(v.data[1]).sexpr() if not isinstance(v.data[1], str) else v.data[1])
    else:
        raise Unsupported("LitStr::parse of %r" % (v,))
    return Lazy("parse<%s>(%s)" % (_short_ty(I, inst.sig[-1]), origin), inst.sig[-1])


@model("syn::parse_str::<*>")
def m_parse_str(I, st, inst, args):
    s_ = str_of(I, st, args[0])
    key = s_ if isinstance(s_, str) else tosym(s_).sexpr()
    return Lazy("parse_str<%s>(%s)" % (_short_ty(I, inst.sig[-1]), key), inst.sig[-1])


@model("syn::LitStr::new")
def m_litstr_new(I, st, inst, args):
    return Opaque("LitStr", ("new", str_of(I, st, args[0]), span_of(args[1]).data))


# ---------------------------------------------------------------------------- syn::Error
@model("syn::Error::new::<*>", aux="display:0")
def m_syn_error_new(I, st, inst, args):
    from .models import display_value
    span = span_of(args[0])
    msg = args[1]
    cell = st.alloc(msg)
    alts = []
    for s2, c in display_value(I, st, Ptr(cell), inst.targ(0), inst.aux.get("display0"), "display"):
        alts.append((s2, Opaque("SynError", ((span.data, c),))))
    if len(alts) == 1 and alts[0][0] is st:
        return alts[0][1]
    return Forks(alts)


@model("syn::Error::new_spanned::<*>", aux="display:1")
def m_syn_error_new_spanned(I, st, inst, args):
    from .models import display_value
    cell0 = st.alloc(args[0])
    span = node_span(I, st, Ptr(cell0))
    cell = st.alloc(args[1])
    alts = []
    for s2, c in display_value(I, st, Ptr(cell), inst.targ(1), inst.aux.get("display1"), "display"):
        alts.append((s2, Opaque("SynError", ((span.data, c),))))
    if len(alts) == 1 and alts[0][0] is st:
        return alts[0][1]
    return Forks(alts)


@model("syn::Error::span")
def m_syn_error_span(I, st, inst, args):
    e = I.read(st, args[0])
    return Opaque("Span", e.data[0][0])


@model("<syn::Error as std::fmt::Display>::fmt")
def m_syn_error_display(I, st, inst, args):
    e = I.read(st, args[0])
    fmt_append(I, st, args[1], e.data[0][1])
    return OK_UNIT


@model("syn::Error::combine")
def m_syn_error_combine(I, st, inst, args):
    e = I.read(st, args[0])
    o = args[1]
    I.write(st, args[0], Opaque("SynError", e.data + o.data))
    return UNIT


@model("<syn::Error as std::iter::IntoIterator>::into_iter")
def m_syn_error_into_iter(I, st, inst, args):
    e = args[0]
    return Opaque("VecIntoIter", (tuple(Opaque("SynError", (m,)) for m in e.data), 0))


@model("<syn::error::IntoIter as std::iter::Iterator>::next")
def m_syn_error_iter_next(I, st, inst, args):
    from .models import m_vec_into_iter_next
    return m_vec_into_iter_next(I, st, inst, args)


# ---------------------------------------------------------------------------- literals
def lit_name(v):
    if isinstance(v, Opaque) and v.data and v.data[0] == "in":
        return v.data[1]
    raise Unsupported("literal without input origin: %r" % (v,))


@model("syn::LitStr::value")
def m_litstr_value(I, st, inst, args):
    v = I.read(st, args[0])
    if isinstance(v, Opaque) and v.data and v.data[0] == "new":
        return StringVal(v.data[1])
    pol = I.policy
    s = pol.str_content(I, st, lit_name(v) + ".value") if pol is not None else None
    return StringVal(s if s is not None else z3.String(lit_name(v) + ".value"))


@model("syn::LitChar::value")
def m_litchar_value(I, st, inst, args):
    from .lazy import constrain_once
    v = I.read(st, args[0])
    name = lit_name(v) + ".value"
    e = z3.BitVec(name, 32)
    constrain_once(st, name, z3.And(z3.ULE(e, 0x10FFFF), z3.Or(z3.ULT(e, 0xD800), z3.UGT(e, 0xDFFF))))
    return e


@model("syn::LitByte::value")
def m_litbyte_value(I, st, inst, args):
    v = I.read(st, args[0])
    return z3.BitVec(lit_name(v) + ".value", 8)


@model("syn::LitInt::base10_digits", "syn::LitFloat::base10_digits")
def m_lit_digits(I, st, inst, args):
    v = I.read(st, args[0])
    name = lit_name(v) + ".digits"
    key = ("L", name)
    if key not in st.heap:
        c = I.policy.digits_content(I, st, name, v.kind) if I.policy is not None else None
        st.heap[key] = c if c is not None else z3.String(name)
    c = st.heap[key]
    return Ptr(key, (), I.str_len(c))


@model("syn::LitInt::suffix", "syn::LitFloat::suffix", "syn::LitStr::suffix")
def m_lit_suffix(I, st, inst, args):
    v = I.read(st, args[0])
    name = lit_name(v) + ".suffix"
    key = ("L", name)
    if key not in st.heap:
        st.heap[key] = z3.String(name)
    return Ptr(key, (), I.str_len(st.heap[key]))


@model("syn::LitStr::span", "syn::LitInt::span", "syn::LitChar::span", "syn::LitFloat::span", "syn::LitByteStr::span", "syn::LitByte::span",
       "syn::LitCStr::span", "syn::Lit::span", "proc_macro2::Literal::span")
def m_lit_span(I, st, inst, args):
    return node_span(I, st, args[0])


@model("<syn::LitStr as std::cmp::PartialEq>::eq", "<syn::LitInt as std::cmp::PartialEq>::eq", "<syn::LitChar as std::cmp::PartialEq>::eq")
def m_lit_eq(I, st, inst, args):
    a = I.read(st, args[0])
    b = I.read(st, args[1])
    if a.data == b.data:
        return True
    return z3.Bool("eq(%s,%s)" % (a.data, b.data))


# ---------------------------------------------------------------------------- strsim
@model("strsim::jaro_winkler")
def m_jaro_winkler(I, st, inst, args):
    from .lazy import constrain_once
    a = str_of(I, st, args[0])
    b = str_of(I, st, args[1])
    nm = "jw(%s,%s)" % (tosym(a).sexpr(), tosym(b).sexpr())
    v = z3.Real(nm)     # a finite, non-NaN f64 in [0, 1]: abstracted as a real (the code only compares scores)
    constrain_once(st, nm, z3.And(v >= 0, v <= 1))
    return v


# ---------------------------------------------------------------------------- syn::Meta: the path is shared by the three forms
def _child_name(self, parent, t, variant, field):
    n = t.adt["name"] if t.adt else ""
    if n == "syn::Meta" and variant == "Path" and field == "0":
        META_PATHS.add(parent + ".path")
        return parent + ".path"
    if n in ("syn::MetaList", "syn::MetaNameValue") and field == "path" and (parent.endswith(".List.0") or parent.endswith(".NameValue.0")):
        META_PATHS.add(parent.rsplit(".", 2)[0] + ".path")
        return parent.rsplit(".", 2)[0] + ".path"
    return None


META_PATHS = set()     # names of lazies that are the path of a syn::Meta (mod-style: syn's Meta parser never produces generic arguments)


def _digits_content(self, I, st, name, kind):
    """decimal digit strings as symbolic bytes of decided length (syn guarantees [0-9]+ for base10_digits of integers)"""
    from .lazy import decide_len, constrain_once
    if kind != "LitInt":
        return None
    lo, hi = self.digits_bounds(name)
    n = decide_len(I, st, name, lo, hi)
    bs = []
    for i in range(n):
        b = z3.BitVec("%s[%d]" % (name, i), 8)
        constrain_once(st, "%s[%d]" % (name, i), z3.And(z3.UGE(b, 48), z3.ULE(b, 57)))
        bs.append(b)
    return ByteSeq(bs)


def _digits_bounds(self, name):
    return (1, 2)


SynPolicy.digits_content = _digits_content
SynPolicy.digits_bounds = _digits_bounds
SynPolicy.child_name = _child_name


@model("syn::Meta::path")
def m_meta_path(I, st, inst, args):
    from .lazy import lazy_cell
    from vlib.view import field_index
    p = args[0]
    v = I.read(st, p, expand_scalar=False)
    ret = I.types[inst.sig[-1]]
    if isinstance(v, Lazy):
        META_PATHS.add(v.name + ".path")
        return Ptr(lazy_cell(I, st, v.name + ".path", ret.elem))
    if isinstance(v, Agg):
        mt = I.types[I.pointee(inst.sig[0])]
        if v.v == 0:
            return Ptr(p.cell, p.path + (("V", 0), 0))
        inner_t = I.types[mt.adt["variants"][v.v]["fields"][0]["ty"]]
        idx = [i for i, f in enumerate(inner_t.variant_fields(0)) if f["name"] == "path"][0]
        return Ptr(p.cell, p.path + (("V", v.v), 0, idx))
    raise Unsupported("Meta::path of %r" % (v,))


@model("darling::error::kind::did_you_mean::<*>", opt="no_dym")
def m_did_you_mean_opaque(I, st, inst, args):
    """suggestion lookup as an uninterpreted function of the unknown name (used by properties that are not about suggestions)"""
    f = str_of(I, st, args[0])
    return Lazy("dym(%s)" % (f if isinstance(f, str) else tosym(f).sexpr()), inst.sig[-1])


def _syn_variants(self, I, st, lz, t):
    """bound the nesting of invisible groups in symbolic expressions"""
    if t.adt and t.adt["name"] == "syn::Expr":
        depth = getattr(self, "group_depth", 1)
        if lz.name.count(".Group.0.expr") >= depth:
            return [i for i, v in enumerate(t.adt["variants"]) if v["name"] != "Group"]
    if t.adt and t.adt["name"] == "syn::PathArguments" and lz.name.endswith(".arguments"):
        owner = lz.name.rsplit(".segments[", 1)[0]
        if owner in META_PATHS:
            return [i for i, v in enumerate(t.adt["variants"]) if v["name"] == "None"]
    return None


SynPolicy.variants = _syn_variants


# ---------------------------------------------------------------------------- token streams (append-only lists of abstract tokens)
def ts_tokens(v):
    if isinstance(v, Opaque) and v.kind == "TokenStream" and v.data and v.data[0] == "toks":
        return v.data[1]
    return None


@model("proc_macro2::TokenStream::new", "<proc_macro2::TokenStream as std::default::Default>::default")
def m_ts_new(I, st, inst, args):
    return Opaque("TokenStream", ("toks", ()))


@model("<syn::* as *ToTokens>::to_tokens", "<proc_macro2::Ident as *ToTokens>::to_tokens", "<proc_macro2::Literal as *ToTokens>::to_tokens",
       "<proc_macro2::TokenStream as *ToTokens>::to_tokens", "<proc_macro2::Group as *ToTokens>::to_tokens", "<proc_macro2::Punct as *ToTokens>::to_tokens",
       "syn::gen::*<impl *ToTokens for syn::*>::to_tokens", "syn::*::printing::<impl *ToTokens for syn::*>::to_tokens")
def m_syn_to_tokens(I, st, inst, args):
    """appending a whole syntax node: the stream records the node (value snapshot + its type)"""
    node = I.read(st, args[0], expand_scalar=False)
    ts = I.read(st, args[1])
    toks = ts_tokens(ts)
    if toks is None:
        raise Unsupported("to_tokens into %r" % (ts,))
    tname = inst.name.split(" as ")[0].lstrip("<") if " as " in inst.name else inst.name.split(" for ")[-1].split(">")[0]
    origin = node.name if isinstance(node, Lazy) else None
    if tname.endswith("proc_macro2::TokenStream") and ts_tokens(node) is not None:
        I.write(st, args[1], Opaque("TokenStream", ("toks", toks + ts_tokens(node))))
        return UNIT
    if isinstance(node, Opaque) and node.kind == "Ident" and tname.endswith("Ident"):
        I.write(st, args[1], Opaque("TokenStream", ("toks", toks + (("i", node.data[0], node.data[1]),))))
        return UNIT
    if tname.startswith(("syn::ImplGenerics", "syn::TypeGenerics", "syn::Turbofish")) and isinstance(node, Agg) and node.f and isinstance(node.f[0], Ptr):
        # borrowed views of a Generics value that usually lives in a local of the caller: keep a snapshot of the referent
        snap = I.read(st, node.f[0], expand_scalar=False)
        I.write(st, args[1], Opaque("TokenStream", ("toks", toks + (("node", tname, node, origin, snap),))))
        return UNIT
    I.write(st, args[1], Opaque("TokenStream", ("toks", toks + (("node", tname, node, origin),))))
    return UNIT


def path_strings(I, st, pv, here=None):
    """(leading colon?, [segment ident strings]) of a syn::Path value (forcing what is needed)"""
    if isinstance(pv, Lazy):
        pv = I.lazy.expand(I, st, pv, here)
    lead, segs = pv.f[0], pv.f[1]
    if isinstance(lead, Lazy):
        lead = I.lazy.expand(I, st, lead, None)     # undecided: the main loop forks and re-runs the step
    if isinstance(segs, Lazy):
        segs = I.lazy.expand(I, st, segs, None)
    inner, last = segs.f
    out = []
    elems = [p.f[0] for p in inner.elems]
    if isinstance(last, Agg) and last.v == 1:
        b = I.unwrap_ptr(last.f[0], st)
        elems.append(I.read(st, b, expand_scalar=False))
    for sgm in elems:
        if isinstance(sgm, Lazy):
            sgm = I.lazy.expand(I, st, sgm, None)
        idv = sgm.f[0]
        if isinstance(idv, Lazy):
            idv = I.lazy.expand(I, st, idv, None)
        out.append(idv.data[0])
    return (isinstance(lead, Agg) and lead.v == 1), out


def render_tokens(I, st, toks):
    """proc_macro2 fallback printer (token-level spacing) for the token kinds that are supported"""
    parts = []
    for t in toks:
        if t[0] == "node" and t[1].endswith("Path"):
            lead, segs = path_strings(I, st, t[2])
            s = ":: " if lead else ""
            for i, sg in enumerate(segs):
                if i:
                    s = scat(s, " :: ")
                s = scat(s, sg)
            parts.append(s)
        elif t[0] == "node" and t[1].endswith("Ident"):
            parts.append(t[2].data[0])
        elif t[0] in ("i", "p"):
            parts.append(t[1])
        elif t[0] == "node" and t[1].endswith("PathSegment"):
            sgm = t[2]
            if isinstance(sgm, Lazy):
                sgm = I.lazy.expand(I, st, sgm, None)
            idv, pa = sgm.f[0], sgm.f[1]
            if isinstance(idv, Lazy):
                idv = I.lazy.expand(I, st, idv, None)
            if isinstance(pa, Lazy):
                pa = I.lazy.expand(I, st, pa, None)
            if not (isinstance(pa, Agg) and pa.v == 0):
                raise Unsupported("printing of a path segment with generic arguments")
            parts.append(idv.data[0])
        else:
            raise Unsupported("printing of token %r" % (t[:2],))
    out = ""
    for i, p in enumerate(parts):
        if i:
            out = scat(out, " ")
        out = scat(out, p)
    return out


# ---------------------------------------------------------------------------- ident_case (external crate): case conversion of concrete identifiers
_RULES = ["None", "LowerCase", "PascalCase", "CamelCase", "SnakeCase", "ScreamingSnakeCase", "KebabCase"]


def _rule_field(rule, f):
    if rule in ("None", "LowerCase", "SnakeCase"):
        return f
    if rule == "PascalCase":
        out, cap = "", True
        for ch in f:
            if ch == "_":
                cap = True
            elif cap:
                out += ch.upper() if ch.isascii() else ch
                cap = False
            else:
                out += ch
        return out
    if rule == "CamelCase":
        p = _rule_field("PascalCase", f)
        if not p:
            raise PanicExc("byte index 1 is out of bounds of ``")
        return p[:1].lower() + p[1:]
    if rule == "ScreamingSnakeCase":
        return f.upper()
    return f.replace("_", "-")


def _rule_variant(rule, v):
    if rule in ("None", "PascalCase"):
        return v
    if rule == "LowerCase":
        return v.lower()
    if rule == "CamelCase":
        if not v:
            raise PanicExc("byte index 1 is out of bounds of ``")
        return v[:1].lower() + v[1:]
    snake = ""
    for i, ch in enumerate(v):
        if i > 0 and ch.isupper():
            snake += "_"
        snake += ch.lower()
    if rule == "SnakeCase":
        return snake
    if rule == "ScreamingSnakeCase":
        return snake.upper()
    return snake.replace("_", "-")


@model("ident_case::RenameRule::apply_to_field::<*>", "ident_case::RenameRule::apply_to_variant::<*>")
def m_rename_rule_apply(I, st, inst, args):
    from .models import PanicExc   # noqa: F401
    rv = I.read(st, args[0])
    if isinstance(rv, Lazy):
        rv = I.lazy.expand(I, st, rv, args[0])
    if not isinstance(rv, Agg) or not isinstance(rv.v, int):
        raise Unsupported("rename rule %r" % (rv,))
    name = str_of(I, st, args[1])
    if not isinstance(name, str):
        raise Unsupported("case conversion of a symbolic identifier")
    rule = _RULES[rv.v]
    out = _rule_field(rule, name) if "apply_to_field" in inst.name else _rule_variant(rule, name)
    return StringVal(out)


# ---------------------------------------------------------------------------- quote!'s runtime: tokens appended to the abstract stream
_PUNCT = {"add": "+", "add_eq": "+=", "and": "&", "and_and": "&&", "and_eq": "&=", "at": "@", "bang": "!", "caret": "^", "caret_eq": "^=", "colon": ":",
          "colon2": "::", "comma": ",", "div": "/", "div_eq": "/=", "dot": ".", "dot2": "..", "dot3": "...", "dot_dot_eq": "..=", "eq": "=", "eq_eq": "==",
          "ge": ">=", "gt": ">", "le": "<=", "lt": "<", "mul_eq": "*=", "ne": "!=", "or": "|", "or_eq": "|=", "or_or": "||", "pound": "#", "question": "?",
          "rarrow": "->", "larrow": "<-", "rem": "%", "rem_eq": "%=", "fat_arrow": "=>", "semi": ";", "shl": "<<", "shl_eq": "<<=", "shr": ">>", "shr_eq": ">>=",
          "star": "*", "sub": "-", "sub_eq": "-=", "underscore": "_"}


def _ts_append(I, st, ptr, toks_new):
    ts = I.read(st, ptr)
    toks = ts_tokens(ts)
    if toks is None:
        raise Unsupported("append to %r" % (ts,))
    I.write(st, ptr, Opaque("TokenStream", ("toks", toks + tuple(toks_new))))
    return UNIT


def _ts_flat(v):
    """tokens of a stream value that is appended to another stream"""
    toks = ts_tokens(v)
    if toks is not None:
        return toks
    if isinstance(v, Opaque) and v.kind == "TokenStream":
        return (("node", "proc_macro2::TokenStream", v, v.data[1] if v.data and v.data[0] == "in" else None),)
    if isinstance(v, Lazy):
        return (("node", "proc_macro2::TokenStream", v, v.name),)
    raise Unsupported("token stream value %r" % (v,))


@model("syn::__private::quote::__private::push_*", "quote::__private::push_*")
def m_quote_push(I, st, inst, args):
    nm = inst.name.rsplit("::push_", 1)[1]
    spanned = nm.endswith("_spanned")
    if spanned:
        nm = nm[:-len("_spanned")]
    span = span_of(args[1]).data if spanned else ("call_site",)
    rest = args[2:] if spanned else args[1:]
    if nm == "ident":
        return _ts_append(I, st, args[0], [("i", str_of(I, st, rest[0]), span)])
    if nm == "lifetime":
        return _ts_append(I, st, args[0], [("lt", str_of(I, st, rest[0]), span)])
    if nm == "group":
        inner = rest[1]
        return _ts_append(I, st, args[0], [("g", rest[0], _ts_flat(inner), span)])
    if nm in _PUNCT:
        return _ts_append(I, st, args[0], [("p", _PUNCT[nm], span)])
    raise Unsupported("quote push_%s" % nm)


@model("syn::__private::quote::__private::parse", "syn::__private::quote::__private::parse_spanned", "quote::__private::parse", "quote::__private::parse_spanned")
def m_quote_parse(I, st, inst, args):
    return _ts_append(I, st, args[0], [("raw", str_of(I, st, args[-1]), ("call_site",))])


@model("syn::__private::quote::__private::mk_ident", "syn::__private::quote::__private::ident_maybe_raw", "quote::__private::mk_ident")
def m_quote_mk_ident(I, st, inst, args):
    sp = args[1]
    if isinstance(sp, Agg):      # Option<Span>
        sp = sp.f[0] if sp.v == 1 else CALL_SITE
    return Opaque("Ident", (str_of(I, st, args[0]), span_of(sp).data if isinstance(sp, Opaque) else ("call_site",)))


@model("<proc_macro2::TokenStream as std::iter::Extend<proc_macro2::TokenStream>>::extend::<*>", aux="into_iter:0,next:0")
def m_ts_extend_ts(I, st, inst, args):
    from .models import drive_iter, _into_iter_value, PanicExc, Forks
    alts = []
    for s1, itv in _into_iter_value(I, st, inst, args[1], 0):
        if isinstance(itv, PanicExc):
            alts.append((s1, itv))
            continue
        for s2, items in drive_iter(I, s1, inst.aux.get("next0"), itv):
            if isinstance(items, PanicExc):
                alts.append((s2, items))
                continue
            new = []
            for it in items:
                new.extend(_ts_flat(it))
            _ts_append(I, s2, args[0], new)
            alts.append((s2, UNIT))
    return Forks(alts)


@model("<proc_macro2::TokenStream as std::iter::FromIterator<proc_macro2::TokenStream>>::from_iter::<*>", aux="into_iter:0,next:0")
def m_ts_from_iter_ts(I, st, inst, args):
    from .models import drive_iter, _into_iter_value, PanicExc, Forks
    alts = []
    for s1, itv in _into_iter_value(I, st, inst, args[0], 0):
        if isinstance(itv, PanicExc):
            alts.append((s1, itv))
            continue
        for s2, items in drive_iter(I, s1, inst.aux.get("next0"), itv):
            if isinstance(items, PanicExc):
                alts.append((s2, items))
                continue
            new = []
            for it in items:
                new.extend(_ts_flat(it))
            alts.append((s2, Opaque("TokenStream", ("toks", tuple(new)))))
    return Forks(alts)


@model("<proc_macro2::TokenStream as syn::__private::TokenStreamExt>::append::<*>", "<proc_macro2::TokenStream as quote::TokenStreamExt>::append::<*>",
       "<proc_macro2::TokenStream as syn::ext::TokenStreamExt>::append")
def m_ts_append_tt(I, st, inst, args):
    v = args[1]
    if isinstance(v, Opaque) and v.kind == "Ident":
        return _ts_append(I, st, args[0], [("i", v.data[0], v.data[1])])
    return _ts_append(I, st, args[0], [("node", getattr(v, "kind", "tt"), v, None)])


@model("syn::gen::debug::<impl std::fmt::Debug for syn::*>::fmt", "<syn::* as std::fmt::Debug>::fmt", "<proc_macro2::* as std::fmt::Debug>::fmt",
       "<darling::ast::NestedMeta as std::fmt::Debug>::fmt")
def m_syn_debug(I, st, inst, args):
    """Debug output of syntax nodes only ever feeds panic / error message text: not interpreted"""
    fmt_append(I, st, args[1], "<debug>")
    return OK_UNIT


@model("<proc_macro2::TokenStream as syn::__private::TokenStreamExt>::append_all::<proc_macro2::TokenStream>",
       "<proc_macro2::TokenStream as quote::TokenStreamExt>::append_all::<proc_macro2::TokenStream>")
def m_ts_append_all_ts(I, st, inst, args):
    return _ts_append(I, st, args[0], _ts_flat(args[1]))


@model("proc_macro2::TokenStream::is_empty")
def m_ts_is_empty(I, st, inst, args):
    v = I.read(st, args[0])
    toks = ts_tokens(v)
    if toks is None:
        raise Unsupported("is_empty of an input token stream")
    return len(toks) == 0


@model("syn::Error::to_compile_error", "syn::Error::into_compile_error")
def m_syn_error_to_compile_error(I, st, inst, args):
    e = args[0]
    if isinstance(e, Ptr):
        e = I.read(st, e)
    return Opaque("TokenStream", ("toks", (("ce", e.data),)))


@model("proc_macro2::Literal::string", "proc_macro2::Literal::usize_unsuffixed", "proc_macro2::Literal::u64_unsuffixed", "proc_macro2::Literal::usize_suffixed")
def m_literal_new(I, st, inst, args):
    a = args[0]
    return Opaque("Literal", ("new", a if not isinstance(a, (Ptr, Lazy)) else str_of(I, st, a)))


_old_display = SynPolicy.display


def _display_ts(self, I, st, ptr, t, kind):
    n = t.adt["name"]
    if n == "proc_macro2::TokenStream":
        v = I.read(st, ptr)
        toks = ts_tokens(v)
        if toks is None:
            raise Unsupported("printing a symbolic input token stream")
        return [(st, render_tokens(I, st, toks))]
    return _old_display(self, I, st, ptr, t, kind)


SynPolicy.display = _display_ts


@model("proc_macro2::Group::new")
def m_group_new(I, st, inst, args):
    return Opaque("Group", ("new", args[0], args[1], ("call_site",)))


@model("proc_macro2::Group::set_span")
def m_group_set_span(I, st, inst, args):
    g = I.read(st, args[0])
    I.write(st, args[0], Opaque("Group", g.data[:3] + (span_of(args[1]).data,)))
    return UNIT


@model("proc_macro2::Group::delim_span", "proc_macro2::Group::span")
def m_group_delim_span(I, st, inst, args):
    g = I.read(st, args[0])
    sp = g.data[3] if g.data and g.data[0] == "new" else g.data
    return Opaque("DelimSpan" if inst.name.endswith("delim_span") else "Span", sp)
