"""Value domain of the symbolic MIR interpreter.  All values are immutable."""
import z3


class _Uninit:
    def __repr__(self):
        return "UNINIT"


UNINIT = _Uninit()


class _Unit:
    def __repr__(self):
        return "()"


class Agg:
    """struct / tuple / array / closure environment (v is None) or enum variant (v = variant index)."""
    __slots__ = ("v", "f")

    def __init__(self, v, f):
        self.v = v
        self.f = tuple(f)

    def __repr__(self):
        if self.v is None:
            return "Agg%s" % (self.f,)
        return "Var%d%s" % (self.v, self.f)


UNIT = Agg(None, ())


class Ptr:
    """reference / raw pointer: heap cell + projection path (+ metadata for unsized pointees)."""
    __slots__ = ("cell", "path", "meta")

    def __init__(self, cell, path=(), meta=None):
        self.cell = cell
        self.path = path
        self.meta = meta

    def proj(self, step):
        return Ptr(self.cell, self.path + (step,), None)

    def with_meta(self, meta):
        return Ptr(self.cell, self.path, meta)

    def key(self):
        return (self.cell, self.path)

    def __repr__(self):
        return "Ptr(%s%s%s)" % (self.cell, "".join("." + str(p) for p in self.path),
                                "" if self.meta is None else " meta=%s" % (self.meta,))


class IntPtr:
    """a pointer made from an integer (dangling / null / tagged)."""
    __slots__ = ("addr",)

    def __init__(self, addr):
        self.addr = addr

    def __repr__(self):
        return "IntPtr(%s)" % (self.addr,)


class PtrAddr:
    """the (abstract, non-null, suitably aligned) address of a pointer, as an integer"""
    __slots__ = ("ptr",)

    def __init__(self, ptr):
        self.ptr = ptr

    def __repr__(self):
        return "PtrAddr(%r)" % (self.ptr,)


class FnPtr:
    __slots__ = ("inst", "closure")

    def __init__(self, inst, closure=False):
        self.inst = inst
        self.closure = closure   # reified non-capturing closure: calls get a unit environment prepended

    def __repr__(self):
        return "FnPtr(%s)" % self.inst


class Lazy:
    """unexpanded symbolic input of a given type; `name` identifies the input position."""
    __slots__ = ("name", "ty", "excl")

    def __init__(self, name, ty, excl=frozenset()):
        self.name = name
        self.ty = ty
        self.excl = excl

    def __repr__(self):
        return "Lazy(%s:%s)" % (self.name, self.ty)


class SymDiscr:
    """discriminant of a not yet concretised lazy enum located at ptr."""
    __slots__ = ("ptr", "ty")

    def __init__(self, ptr, ty):
        self.ptr = ptr
        self.ty = ty

    def __repr__(self):
        return "SymDiscr(%s)" % (self.ptr,)


class VecVal:
    """model of Vec<T> / Box<[T]> contents: a concrete-length tuple of element values."""
    __slots__ = ("elems",)

    def __init__(self, elems):
        self.elems = tuple(elems)

    def __repr__(self):
        return "Vec%s" % (list(self.elems),)


class ByteSeq:
    """string content given bytewise: concrete length, each byte an int or a z3 BitVec(8)."""
    __slots__ = ("b",)

    def __init__(self, b):
        self.b = tuple(b)

    def __repr__(self):
        return "ByteSeq%s" % (self.b,)


class StringVal:
    """model of String / Box<str>: content is python str, z3 String expression or ByteSeq."""
    __slots__ = ("s",)

    def __init__(self, s):
        self.s = s

    def __repr__(self):
        return "String(%r)" % (self.s,)


class Opaque:
    """model-level value of a library type (span, ident, token stream, formatter ...)."""
    __slots__ = ("kind", "data")

    def __init__(self, kind, data=None):
        self.kind = kind
        self.data = data

    def __repr__(self):
        return "%s(%r)" % (self.kind, self.data)


class Poison:
    """result of reading an uninitialised / moved-out location in dead code of optimised std MIR."""
    __slots__ = ("why",)

    def __init__(self, why=""):
        self.why = why

    def __repr__(self):
        return "Poison(%s)" % self.why


def is_sym(v):
    return isinstance(v, z3.ExprRef)


def is_concrete_int(v):
    return isinstance(v, int) and not isinstance(v, bool)
