"""Compiler intrinsics (by name).  Returning FALLBACK means: use the dumped fallback body."""
import z3
from .values import *
from .core import Unsupported, PanicExc, wrap_int

FALLBACK = object()


def _targ(I, inst, i=0):
    return I.types[inst.targ(i)]


def call(I, st, inst, args):
    n = inst.intrinsic
    f = TABLE.get(n)
    if f is None:
        if inst.blocks is not None:
            return FALLBACK
        raise Unsupported("intrinsic %s" % n)
    return f(I, st, inst, args)


def size_of(I, st, inst, args):
    return I.size_of(_targ(I, inst))


def size_of_val(I, st, inst, args):
    t = _targ(I, inst)
    if t.layout:
        return I.size_of(t)
    raise Unsupported("size_of_val of unsized %s" % t)


def align_of(I, st, inst, args):
    t = _targ(I, inst)
    if t.layout:
        return t.layout["abi_align"]
    raise Unsupported("align_of %s" % t)


def write_via_move(I, st, inst, args):
    I.write(st, args[0], args[1])
    return UNIT


def read_via_copy(I, st, inst, args):
    return I.read(st, args[0], expand_scalar=False)


def discriminant_value(I, st, inst, args):
    ptr = args[0]
    t = _targ(I, inst)
    v = I.read(st, ptr, expand_scalar=False)
    if isinstance(v, Lazy):
        if t.is_enum:
            vi = I.lazy.decide_variant(I, st, v, ptr)
            I.lazy.concretise_variant(I, st, v, ptr, vi)
            return I.discr_value(t, vi)
        return 0
    if isinstance(v, Agg) and v.v is not None:
        return I.discr_value(t, v.v)
    d = I.discr_hook(st, v, t)
    if d is not None:
        return d
    return 0


def assume(I, st, inst, args):
    c = args[0]
    if is_sym(c):
        I.add_pc(st, c)
    return UNIT


def ident(I, st, inst, args):
    return args[0]


def nop(I, st, inst, args):
    return UNIT


def false_(I, st, inst, args):
    return False


def abort(I, st, inst, args):
    raise PanicExc("abort intrinsic", nounwind=True)


def needs_drop(I, st, inst, args):
    d = I.prog.drops.get(inst.targ(0))
    return bool(d and not d["empty"])


def const_eval_select(I, st, inst, args):
    # (args_tuple, const_fn, runtime_fn) -> runtime_fn(args...)
    tup, _ct, rt = args
    if isinstance(rt, FnPtr):
        callee = I.prog.insts[rt.inst]
    else:
        aux = inst.aux
        raise Unsupported("const_eval_select callee %r" % (rt,))
    a = list(tup.f) if isinstance(tup, Agg) else []
    res = I.call_sync(st, callee, a)
    from .core import Forks
    return Forks(res)


def ptr_offset_from_unsigned(I, st, inst, args):
    a, b = args
    if isinstance(a, Ptr) and isinstance(b, Ptr) and a.cell == b.cell and a.path[:-1] == b.path[:-1]:
        return a.path[-1] - b.path[-1]
    if I.ptr_eq(a, b):
        return 0
    raise Unsupported("ptr_offset_from %r %r" % (a, b))


def offset(I, st, inst, args):
    return I.ptr_offset(st, args[0], args[1])


def compare_bytes(I, st, inst, args):
    a, b, n = args
    n = I.concrete_int(st, n)
    xs, ys = [], []
    for i in range(n):
        xs.append(I.read(st, Ptr(a.cell, a.path[:-1] + (a.path[-1] + i,))))
        ys.append(I.read(st, Ptr(b.cell, b.path[:-1] + (b.path[-1] + i,))))
    if all(isinstance(x, int) for x in xs + ys):
        for x, y in zip(xs, ys):
            if x != y:
                return -1 if x < y else 1
        return 0
    # symbolic memcmp: lexicographic comparison as a nested if-then-else over 32-bit results
    res = z3.BitVecVal(0, 32)
    for x, y in reversed(list(zip(xs, ys))):
        zx = x if is_sym(x) else z3.BitVecVal(x, 8)
        zy = y if is_sym(y) else z3.BitVecVal(y, 8)
        res = z3.If(zx == zy, res, z3.If(z3.ULT(zx, zy), z3.BitVecVal(-1, 32), z3.BitVecVal(1, 32)))
    return I.norm(res, None)


def raw_eq(I, st, inst, args):
    a = I.read(st, args[0])
    b = I.read(st, args[1])
    return I.values_equal(st, a, b)


def _bits_op(fn):
    def g(I, st, inst, args):
        t = _targ(I, inst)
        v = args[0]
        if isinstance(v, int):
            return fn(v & ((1 << t.bits) - 1), t.bits)
        raise Unsupported("symbolic bit intrinsic")
    return g


def wrapping(op):
    def g(I, st, inst, args):
        t = _targ(I, inst)
        return I.binop(st, op, args[0], args[1], t, t)
    return g


def with_overflow(op):
    def g(I, st, inst, args):
        t = _targ(I, inst)
        return I.checked_binop(st, op, args[0], args[1], t)
    return g


def saturating(op):
    def g(I, st, inst, args):
        t = _targ(I, inst)
        a, b = args
        if isinstance(a, int) and isinstance(b, int):
            r = a + b if op == "Add" else a - b
            lo = -(1 << (t.bits - 1)) if t.signed else 0
            hi = (1 << (t.bits - 1)) - 1 if t.signed else (1 << t.bits) - 1
            return max(lo, min(hi, r))
        raise Unsupported("symbolic saturating")
    return g


def three_way_compare(I, st, inst, args):
    t = _targ(I, inst)
    return I.binop(st, "Cmp", args[0], args[1], t, t)


def typed_swap(I, st, inst, args):
    a, b = args
    va = I.read(st, a, expand_scalar=False)
    vb = I.read(st, b, expand_scalar=False)
    I.write(st, a, vb)
    I.write(st, b, va)
    return UNIT


def write_bytes(I, st, inst, args):
    return UNIT


def type_id(I, st, inst, args):
    return Opaque("TypeId", inst.targ(0))


def type_name(I, st, inst, args):
    s = _targ(I, inst).str
    key = ("tn", inst.targ(0))
    I._static_cells[key] = s
    return Ptr(key, (), len(s))


def caller_location(I, st, inst, args):
    key = ("loc",)
    I._static_cells[key] = Opaque("Location")
    return Ptr(key)


def ptr_guaranteed_cmp(I, st, inst, args):
    return 1 if I.ptr_eq(args[0], args[1]) else 0


def slice_get_unchecked(I, st, inst, args):
    p, idx = args
    idx = I.concrete_int(st, idx)
    return Ptr(p.cell, p.path + (idx,))


def exact_div(I, st, inst, args):
    t = _targ(I, inst)
    return I.binop(st, "Div", args[0], args[1], t, t)


def unreachable(I, st, inst, args):
    raise Unsupported("reached intrinsics::unreachable")


TABLE = {
    "size_of": size_of, "size_of_val": size_of_val, "align_of_val": align_of, "min_align_of": align_of, "pref_align_of": align_of, "align_of": align_of,
    "write_via_move": write_via_move, "read_via_copy": read_via_copy,
    "discriminant_value": discriminant_value,
    "assume": assume, "likely": ident, "unlikely": ident, "black_box": ident,
    "cold_path": nop, "assert_inhabited": nop, "assert_zero_valid": nop, "assert_mem_uninitialized_valid": nop,
    "ub_checks": false_, "is_val_statically_known": false_, "contract_checks": false_, "overflow_checks": false_,
    "abort": abort, "needs_drop": needs_drop, "const_eval_select": const_eval_select,
    "ptr_offset_from_unsigned": ptr_offset_from_unsigned, "ptr_offset_from": ptr_offset_from_unsigned,
    "offset": offset, "arith_offset": offset,
    "compare_bytes": compare_bytes, "raw_eq": raw_eq,
    "ctpop": _bits_op(lambda v, b: bin(v).count("1")),
    "ctlz": _bits_op(lambda v, b: b - v.bit_length()),
    "cttz": _bits_op(lambda v, b: b if v == 0 else (v & -v).bit_length() - 1),
    "wrapping_add": wrapping("Add"), "wrapping_sub": wrapping("Sub"), "wrapping_mul": wrapping("Mul"),
    "unchecked_add": wrapping("Add"), "unchecked_sub": wrapping("Sub"), "unchecked_mul": wrapping("Mul"),
    "unchecked_shl": wrapping("Shl"), "unchecked_shr": wrapping("Shr"),
    "unchecked_div": wrapping("Div"), "unchecked_rem": wrapping("Rem"),
    "add_with_overflow": with_overflow("Add"), "sub_with_overflow": with_overflow("Sub"),
    "mul_with_overflow": with_overflow("Mul"),
    "saturating_add": saturating("Add"), "saturating_sub": saturating("Sub"),
    "three_way_compare": three_way_compare, "typed_swap_nonoverlapping": typed_swap,
    "write_bytes": write_bytes, "type_id": type_id, "type_name": type_name, "caller_location": caller_location,
    "ptr_guaranteed_cmp": ptr_guaranteed_cmp, "slice_get_unchecked": slice_get_unchecked,
    "exact_div": exact_div, "unreachable": unreachable,
}
