"""Lazy initialisation of symbolic inputs, by type.

A `Lazy(name, ty)` value stands for "an arbitrary valid value of type ty at input position name".
It is expanded one level at a time, when the executed code first looks at it.  Choices that
change the shape of the heap (enum variant, vector length) are *decisions*: they are recorded in
`st.decisions[name#d | name#len]`, constrained in the path condition through an integer variable
of the same name, and forked over by the main loop (core.NeedFork).
"""
import z3

from .values import *
from .core import NeedFork, Unsupported


def dvar(name):
    return z3.Int(name)


def decision_constraints(st):
    """the decisions of a state as z3 constraints over integer variables named like the decision keys"""
    out = []
    for k, v in st.decisions.items():
        if k.endswith("#not"):
            base = k[:-4] + "#d"
            for x in v:
                out.append(dvar(base) != x)
        elif isinstance(v, int):
            out.append(dvar(k) == v)
    return out


def is_eager(I, t):
    """types whose Lazy is expanded as soon as it is read as a whole (cheap, non-forking)"""
    if t.kind == "adt":
        n = t.adt["name"]
        if n in ("std::string::String", "alloc::string::String"):
            return True
        if I.policy is not None and I.policy.is_eager(n):
            return True
    return False


def allowed_variants(I, st, lz):
    t = I.types[lz.ty]
    allv = set(range(len(t.adt["variants"])))
    if I.policy is not None:
        r = I.policy.variants(I, st, lz, t)
        if r is not None:
            allv &= set(r)
    # never-constructible variants (uninhabited payload)
    for i in list(allv):
        for f in t.adt["variants"][i]["fields"]:
            ft = I.types[f["ty"]]
            if ft.kind == "never" or (ft.kind == "adt" and ft.adt["kind"] == "Enum" and not ft.adt["variants"]):
                allv.discard(i)
    return allv - set(lz.excl)


def decide_variant(I, st, lz, here):
    key = lz.name + "#d"
    if key in st.decisions:
        return st.decisions[key]
    allowed = sorted(allowed_variants(I, st, lz))
    if not allowed:
        raise Unsupported("no variant allowed for %r" % (lz,))
    if len(allowed) == 1:
        st.decisions[key] = allowed[0]
        if not lz.excl:
            I.domains.setdefault(key, [allowed[0]])
        return allowed[0]
    raise NeedFork(key, allowed, None)


def child_name(I, parent, t, variant, field):
    """name of the lazy child `field` of lazy `parent` (policy may alias children, e.g. the path of a syn::Meta)"""
    if I.policy is not None:
        n = I.policy.child_name(parent, t, variant, field)
        if n is not None:
            return n
    if variant is None:
        return "%s.%s" % (parent, field)
    return "%s.%s.%s" % (parent, variant, field)


def variant_value(I, st, lz, vi):
    t = I.types[lz.ty]
    vd = t.adt["variants"][vi]
    return Agg(vi, [Lazy(child_name(I, lz.name, t, vd["name"], f["name"]), f["ty"]) for f in vd["fields"]])


def concretise_variant(I, st, lz, ptr, vi):
    key = lz.name + "#d"
    if st.decisions.get(key) != vi:
        st.decisions[key] = vi
    v = variant_value(I, st, lz, vi)
    if ptr is not None:
        I.write(st, ptr, v)
    return v


def exclude_variants(I, st, lz, ptr, named):
    key = lz.name + "#d"
    new = Lazy(lz.name, lz.ty, frozenset(lz.excl) | frozenset(named))
    st.decisions[lz.name + "#not"] = new.excl
    if ptr is not None:
        I.write(st, ptr, new)
    return new


def decide_len(I, st, name, lo, hi):
    key = name + "#len"
    if key in st.decisions:
        return st.decisions[key]
    if lo == hi:
        st.decisions[key] = lo
        I.domains.setdefault(key, [lo])
        return lo
    raise NeedFork(key, list(range(lo, hi + 1)), None)


def lazy_cell(I, st, name, ty):
    """deterministically named heap cell holding a lazy pointee"""
    key = ("L", name)
    if key not in st.heap:
        st.heap[key] = Lazy(name, ty)
    return key


def constrain_once(st, tag, c):
    done = st.extra.get("constrained")
    if done is None or tag not in done:
        done = set(done or ())
        done.add(tag)
        st.extra["constrained"] = done
        st.pc.append(c)
        # input validity predicates are assumptions, not branch conditions (exhaustiveness is relative to them)
        st.extra["assumed"] = tuple(st.extra.get("assumed", ())) + (c,)


def expand(I, st, lz, here, want=None):
    """expand lazy value one level; write the result back at `here` (a Ptr) when given"""
    t = I.types[lz.ty]
    v = _expand(I, st, lz, t, want)
    if here is not None and v is not lz:
        I.write(st, here, v)
    return v


def _expand(I, st, lz, t, want):
    name = lz.name
    k = t.kind
    pol = I.policy
    if pol is not None:
        c = pol.custom(I, st, lz, t)
        if c is not None:
            return c
    if k == "int":
        e = z3.BitVec(name, t.bits)
        if pol is not None:
            c = pol.int_constraint(name, t, e)
            if c is not None:
                constrain_once(st, name, c)
        return e
    if k == "bool":
        return z3.Bool(name)
    if k == "char":
        e = z3.BitVec(name, 32)
        constrain_once(st, name, z3.And(z3.ULE(e, 0x10FFFF), z3.Or(z3.ULT(e, 0xD800), z3.UGT(e, 0xDFFF))))
        return e
    if k == "float":
        return z3.FP(name, z3.Float64() if t.bits == 64 else z3.Float32())
    if k == "pat":
        return _expand(I, st, lz, I.types[t.elem], want)
    if k in ("ref", "rawptr"):
        pt = I.types[t.elem]
        if pt.kind == "str":
            s = pol.str_content(I, st, name + "*") if pol is not None else None
            if s is None:
                s = z3.String(name + "*")
            key = ("L", name + "*")
            if key not in st.heap:
                st.heap[key] = s
            return Ptr(key, (), I.str_len(s))
        if pt.kind == "slice":
            lo, hi = pol.len_bounds(I, st, name + "*", pt) if pol is not None else (0, 2)
            n = decide_len(I, st, name + "*", lo, hi)
            key = ("L", name + "*")
            if key not in st.heap:
                st.heap[key] = Agg(None, [Lazy("%s*[%d]" % (name, i), pt.elem) for i in range(n)])
            return Ptr(key, (), n)
        if pt.kind == "dyn":
            raise Unsupported("lazy dyn pointer %s" % name)
        return Ptr(lazy_cell(I, st, name + "*", pt.id))
    if k == "tuple":
        return Agg(None, [Lazy("%s.%d" % (name, i), x) for i, x in enumerate(t.tys)])
    if k == "array":
        return Agg(None, [Lazy("%s[%d]" % (name, i), t.elem) for i in range(t.len)])
    if k == "adt":
        n = t.adt["name"]
        if n in ("std::string::String", "alloc::string::String"):
            s = pol.str_content(I, st, name) if pol is not None else None
            return StringVal(s if s is not None else z3.String(name))
        if n in ("std::vec::Vec", "alloc::vec::Vec"):
            et = t.adt["args"][0]
            lo, hi = pol.len_bounds(I, st, name, t) if pol is not None else (0, 2)
            ln = decide_len(I, st, name, lo, hi)
            return VecVal([Lazy("%s[%d]" % (name, i), et) for i in range(ln)])
        if t.is_struct:
            return Agg(None, [Lazy(child_name(I, name, t, None, f["name"]), f["ty"]) for f in t.variant_fields(0)])
        if t.is_enum:
            if isinstance(want, tuple) and want[0] == "V":
                return concretise_variant(I, st, lz, None, want[1])
            vi = decide_variant(I, st, lz, None)
            return concretise_variant(I, st, lz, None, vi)
        raise Unsupported("lazy union %s" % t)
    if k == "never":
        raise Unsupported("lazy never")
    raise Unsupported("lazy value of type %s (%s)" % (t, name))


class Policy:
    """default policy; property scripts subclass it"""
    drop_impl_prefixes = ("darling", "h")

    def is_eager(self, adt_name):
        return False

    def custom(self, I, st, lz, t):
        return None

    def variants(self, I, st, lz, t):
        return None

    def len_bounds(self, I, st, name, t):
        return (0, 2)

    def int_constraint(self, name, t, e):
        return None

    def str_content(self, I, st, name):
        return None

    def child_name(self, parent, t, variant, field):
        return None

    def digits_content(self, I, st, name, kind):
        return None

    def display(self, I, st, ptr, t, kind):
        return None

    def has_drop_impl(self, adt_name):
        return adt_name.startswith("darling") and adt_name.endswith("Accumulator") or adt_name.startswith("h") and "::Guard" in adt_name
