"""Models of harness-side helper functions (uninterpreted conversion outcomes)."""
import z3

from .values import *
from .core import Unsupported, is_sym
from .models import model
from .syn_models import node_span


def item_origin(I, st, ptr):
    sp = node_span(I, st, ptr)
    d = sp.data
    return d[1] if d[0] in ("node", "in", "cover") else str(d)


@model("*::opq_conv")
def m_opq_conv(I, st, inst, args):
    """Result<Opq, Error> as an uninterpreted function of the item (by origin)"""
    return Lazy("conv(%s)" % item_origin(I, st, args[0]), inst.sig[-1])


@model("*::opq_with")
def m_opq_with(I, st, inst, args):
    return Lazy("convw(%s)" % item_origin(I, st, args[0]), inst.sig[-1])


# ---------------------------------------------------------------------------- hconv hooks (uninterpreted outcomes)
def _expr_name(v):
    import z3 as _z3
    if isinstance(v, bool):
        return str(v).lower()
    if isinstance(v, int):
        return str(v)
    if isinstance(v, str):
        return repr(v)
    if is_sym(v):
        s = _z3.simplify(v)
        if _z3.is_const(s) and s.decl().kind() == _z3.Z3_OP_UNINTERPRETED:
            return s.decl().name()
        return s.sexpr()
    return repr(v)


def _tag(I, st, v):
    return I.concrete_int(st, v)


@model("*::hook_word")
def m_hook_word(I, st, inst, args):
    return Lazy("hook(word,%d)" % _tag(I, st, args[0]), inst.sig[-1])


@model("*::hook_list")
def m_hook_list(I, st, inst, args):
    from vlib.view import pristine
    from .models import slice_elems
    p = args[1]
    base = Ptr(p.cell, p.path)
    whole = I.read(st, base, expand_scalar=False)
    name = None
    if isinstance(whole, Agg):
        names = []
        for x in whole.f[: p.meta if isinstance(p.meta, int) else len(whole.f)]:
            n = pristine(I, st, x)
            names.append(n if n is not None else "?")
        name = "[" + ",".join(names) + "]"
    elif isinstance(whole, Lazy):
        name = whole.name
    return Lazy("hook(list,%d,%s)" % (_tag(I, st, args[0]), name), inst.sig[-1])


@model("*::hook_bool", "*::hook_char")
def m_hook_scalar(I, st, inst, args):
    kind = "bool" if inst.name.endswith("hook_bool") else "char"
    return Lazy("hook(%s,%d,%s)" % (kind, _tag(I, st, args[0]), _expr_name(args[1])), inst.sig[-1])


@model("*::hook_string")
def m_hook_string(I, st, inst, args):
    from .models import str_of
    return Lazy("hook(string,%d,%s)" % (_tag(I, st, args[0]), _expr_name(str_of(I, st, args[1]))), inst.sig[-1])


@model("*::hook_value", "*::hook_expr", "*::hook_meta")
def m_hook_node(I, st, inst, args):
    kind = inst.name.rsplit("hook_", 1)[1]
    return Lazy("hook(%s,%d,%s)" % (kind, _tag(I, st, args[0]), item_origin(I, st, args[1])), inst.sig[-1])
