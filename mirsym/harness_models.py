"""Models of harness-side helper functions (uninterpreted conversion outcomes)."""
import z3

from .values import *
from .core import Unsupported
from .models import model
from .syn_models import node_span


def item_origin(I, st, ptr):
    sp = node_span(I, st, ptr)
    d = sp.data
    return d[1] if d[0] in ("node", "in", "cover") else str(d)


@model("*::opq_conv")
def m_opq_conv(I, st, inst, args):
    """Result<Opq, Error> as an uninterpreted function of the item (by origin)"""
    return Lazy("conv(%s)" % item_origin(I, st, args[0]), inst.sig[-1])


@model("*::opq_with")
def m_opq_with(I, st, inst, args):
    return Lazy("convw(%s)" % item_origin(I, st, args[0]), inst.sig[-1])
