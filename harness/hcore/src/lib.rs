#![allow(unused)]
use darling::error::Accumulator;
use darling::Error;

pub fn entry_push(mut acc: Accumulator, e: Error) -> Accumulator {
    acc.push(e);
    acc
}
pub fn entry_handle(mut acc: Accumulator, r: Result<u32, Error>) -> (Accumulator, Option<u32>) {
    let v = acc.handle(r);
    (acc, v)
}
pub fn entry_handle_in(mut acc: Accumulator, r: Result<u32, Error>) -> (Accumulator, Option<u32>) {
    let v = acc.handle_in(move || r);
    (acc, v)
}
pub fn entry_extend(mut acc: Accumulator, v: Vec<Error>) -> Accumulator {
    acc.extend(v);
    acc
}
pub fn entry_checkpoint(acc: Accumulator) -> Result<Accumulator, Error> {
    acc.checkpoint()
}
pub fn entry_finish(acc: Accumulator) -> Result<(), Error> {
    acc.finish()
}
pub fn entry_finish_with(acc: Accumulator, v: u32) -> Result<u32, Error> {
    acc.finish_with(v)
}
pub fn entry_into_inner(acc: Accumulator) -> Vec<Error> {
    acc.into_inner()
}
pub fn entry_drop(acc: Accumulator) {
    drop(acc)
}
pub fn entry_scope_exit(acc: Accumulator, n: u8) -> u8 {
    let _guard = acc;
    n
}
pub fn entry_unwind(acc: Accumulator) {
    let _guard = acc;
    panic!("original panic");
}
pub fn entry_default() -> Accumulator {
    Error::accumulator()
}

/// bounded history: each op byte selects an accumulator operation; errors come from `errs` in order.
/// The log records what `handle` returned; the final result is `finish_with(log)`.
pub fn entry_script(ops: &[u8], errs: Vec<Error>) -> Result<Vec<u8>, Error> {
    let mut acc = Error::accumulator();
    let mut src = errs.into_iter();
    let mut log: Vec<u8> = Vec::new();
    for op in ops {
        match *op {
            0 => {
                if let Some(e) = src.next() {
                    acc.push(e);
                }
            }
            1 => {
                let r: Option<u8> = acc.handle(Ok(7u8));
                log.push(if r == Some(7) { 1 } else { 0 });
            }
            2 => {
                if let Some(e) = src.next() {
                    let r: Option<u8> = acc.handle(Err(e));
                    log.push(if r.is_none() { 2 } else { 0 });
                }
            }
            3 => {
                let mut two = Vec::new();
                if let Some(e) = src.next() {
                    two.push(e);
                }
                if let Some(e) = src.next() {
                    two.push(e);
                }
                acc.extend(two);
            }
            4 => {
                acc = acc.checkpoint()?;
                log.push(4);
            }
            5 => {
                let r: Option<u8> = acc.handle_in(|| match src.next() {
                    Some(e) => Err(e),
                    None => Ok(9u8),
                });
                log.push(if r.is_none() { 5 } else { 9 });
            }
            _ => {}
        }
    }
    acc.finish_with(log)
}

// ------------------------------------------------------------------ C04: error trees
pub fn entry_len(e: &Error) -> usize {
    e.len()
}
pub fn entry_flatten(e: Error) -> Error {
    e.flatten()
}
pub fn entry_flatten_twice(e: Error) -> Error {
    e.flatten().flatten()
}
pub fn entry_multiple(v: Vec<Error>) -> Error {
    Error::multiple(v)
}
pub fn entry_at(e: Error, loc: String) -> Error {
    e.at(loc)
}
pub fn entry_display(e: &Error) -> String {
    e.to_string()
}
pub fn entry_into_iter(e: Error) -> Vec<Error> {
    e.into_iter().collect()
}
pub fn entry_clone(e: &Error) -> Error {
    e.clone()
}
pub fn entry_to_syn(e: Error) -> Vec<(String, proc_macro2::Span)> {
    let s: syn::Error = e.into();
    s.into_iter().map(|x| (x.to_string(), x.span())).collect()
}
pub fn entry_with_span_twice(e: Error, a: &proc_macro2::Ident, b: &proc_macro2::Ident) -> Error {
    e.with_span(a).with_span(b)
}
pub fn entry_has_span(e: &Error) -> (bool, Option<proc_macro2::Span>) {
    (e.has_span(), e.explicit_span())
}
