#![allow(unused)]
use darling::error::Accumulator;
use darling::Error;

pub fn entry_push(mut acc: Accumulator, e: Error) -> Accumulator {
    acc.push(e);
    acc
}
pub fn entry_handle(mut acc: Accumulator, r: Result<u32, Error>) -> (Accumulator, Option<u32>) {
    let v = acc.handle(r);
    (acc, v)
}
pub fn entry_handle_in(mut acc: Accumulator, r: Result<u32, Error>) -> (Accumulator, Option<u32>) {
    let v = acc.handle_in(move || r);
    (acc, v)
}
pub fn entry_extend(mut acc: Accumulator, v: Vec<Error>) -> Accumulator {
    acc.extend(v);
    acc
}
pub fn entry_checkpoint(acc: Accumulator) -> Result<Accumulator, Error> {
    acc.checkpoint()
}
pub fn entry_finish(acc: Accumulator) -> Result<(), Error> {
    acc.finish()
}
pub fn entry_finish_with(acc: Accumulator, v: u32) -> Result<u32, Error> {
    acc.finish_with(v)
}
pub fn entry_into_inner(acc: Accumulator) -> Vec<Error> {
    acc.into_inner()
}
pub fn entry_drop(acc: Accumulator) {
    drop(acc)
}
pub fn entry_scope_exit(acc: Accumulator, n: u8) -> u8 {
    let _guard = acc;
    n
}
pub fn entry_unwind(acc: Accumulator) {
    let _guard = acc;
    panic!("original panic");
}
pub fn entry_default() -> Accumulator {
    Error::accumulator()
}
