// native runner for the hcore harness: reads one s-expression per line, runs the same entry
// functions natively against /repo, prints one JSON line per request.
#![allow(unused)]
include!("../../common/sexp.rs");
include!("../../common/errors.rs");
use darling::error::Accumulator;
use std::io::BufRead;

fn build_acc(sx: &Sx) -> Accumulator {
    // (acc e1 e2 ...)  -- armed accumulator holding the given errors
    let mut a = Error::accumulator();
    for e in &sx.list()[1..] {
        a.push(build_error(e));
    }
    a
}

fn render_errs(v: &[Error]) -> String {
    format!("[{}]", v.iter().map(render_error).collect::<Vec<_>>().join(","))
}

fn render_res<T>(r: Result<T, Error>, f: impl Fn(&T) -> String) -> String {
    match r {
        Ok(v) => format!("{{\"ok\":{}}}", f(&v)),
        Err(e) => format!("{{\"err\":{}}}", render_error(&e)),
    }
}

fn run(req: &Sx) -> String {
    let l = req.list();
    match l[0].atom() {
        "push" => {
            let acc = hcore::entry_push(build_acc(&l[1]), build_error(&l[2]));
            render_errs(&acc.into_inner())
        }
        "handle" | "handle_in" => {
            let r: Result<u32, Error> = if l[2].head() == "ok" { Ok(l[2].list()[1].num() as u32) } else { Err(build_error(&l[2].list()[1])) };
            let (acc, v) = if l[0].atom() == "handle" { hcore::entry_handle(build_acc(&l[1]), r) } else { hcore::entry_handle_in(build_acc(&l[1]), r) };
            format!("{{\"acc\":{},\"ret\":{}}}", render_errs(&acc.into_inner()), match v { Some(x) => x.to_string(), None => "null".into() })
        }
        "extend" => {
            let v: Vec<Error> = l[2].list()[1..].iter().map(build_error).collect();
            let acc = hcore::entry_extend(build_acc(&l[1]), v);
            render_errs(&acc.into_inner())
        }
        "checkpoint" => match hcore::entry_checkpoint(build_acc(&l[1])) {
            Ok(acc) => {
                let n = acc.into_inner().len();
                if n == 0 { "{\"ok\":\"fresh\"}".to_string() } else { format!("{{\"ok\":\"holds {}\"}}", n) }
            }
            Err(e) => format!("{{\"err\":{}}}", render_error(&e)),
        },
        "finish" => render_res(hcore::entry_finish(build_acc(&l[1])), |_| "null".into()),
        "finish_with" => render_res(hcore::entry_finish_with(build_acc(&l[1]), l[2].num() as u32), |v| v.to_string()),
        "into_inner" => render_errs(&hcore::entry_into_inner(build_acc(&l[1]))),
        "drop" => {
            hcore::entry_drop(build_acc(&l[1]));
            "null".into()
        }
        "scope_exit" => hcore::entry_scope_exit(build_acc(&l[1]), l[2].num() as u8).to_string(),
        "unwind" => {
            hcore::entry_unwind(build_acc(&l[1]));
            "null".into()
        }
        "checkpoint_then_drop" => {
            // the accumulator handed back by a successful checkpoint must be armed
            let a = hcore::entry_checkpoint(build_acc(&l[1]));
            match a {
                Ok(acc) => {
                    drop(acc);
                    "\"no panic\"".into()
                }
                Err(e) => format!("{{\"err\":{}}}", render_error(&e)),
            }
        }
        "len" => hcore::entry_len(&build_error(&l[1])).to_string(),
        "flatten" => render_error(&hcore::entry_flatten(build_error(&l[1]))),
        "flatten_twice" => render_error(&hcore::entry_flatten_twice(build_error(&l[1]))),
        "multiple_of" => render_error(&hcore::entry_multiple(l[1..].iter().map(build_error).collect())),
        "at_loc" => render_error(&hcore::entry_at(build_error(&l[1]), l[2].text().to_string())),
        "into_iter" => render_errs(&hcore::entry_into_iter(build_error(&l[1]))),
        "display" => jstr(&hcore::entry_display(&build_error(&l[1]))),
        "clone" => render_error(&hcore::entry_clone(&build_error(&l[1]))),
        "to_syn" => {
            let v = hcore::entry_to_syn(build_error(&l[1]));
            format!("[{}]", v.iter().map(|(m, _)| jstr(m)).collect::<Vec<_>>().join(","))
        }
        "script" => {
            let ops: Vec<u8> = l[1].list().iter().map(|x| x.num() as u8).collect();
            let errs: Vec<Error> = l[2].list().iter().map(build_error).collect();
            render_res(hcore::entry_script(&ops, errs), |log| format!("{:?}", log))
        }
        other => panic!("unknown request {}", other),
    }
}

fn main() {
    std::panic::set_hook(Box::new(|_| {}));
    let stdin = std::io::stdin();
    for line in stdin.lock().lines() {
        let line = line.unwrap();
        if line.trim().is_empty() {
            continue;
        }
        let req = parse_sx(&line);
        let out = match catch(move || run(&req)) {
            Ok(s) => format!("{{\"result\":{}}}", s),
            Err(m) => format!("{{\"panic\":{}}}", jstr(&m)),
        };
        println!("{}", out);
    }
}
