fn main(){}
