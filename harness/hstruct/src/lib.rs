#![allow(unused)]
use darling::ast::NestedMeta;
use darling::{FromMeta, FromDeriveInput, FromField};

#[derive(Debug, FromMeta)]
pub struct R1 {
    pub a: bool,
    #[darling(default)]
    pub b: String,
    #[darling(multiple, rename = "cc")]
    pub c: Vec<String>,
    pub d: Option<u8>,
}

pub fn entry_r1_from_list(items: &[NestedMeta]) -> darling::Result<R1> {
    R1::from_list(items)
}
pub fn entry_r1_from_meta(item: &syn::Meta) -> darling::Result<R1> {
    R1::from_meta(item)
}
