// Conversion harness: opaque target types, probe implementers (C15), wrapper entries (C12),
// scalar conversions (C11), keyed collections (C14), syntax-valued targets (C13).
#![allow(unused, non_snake_case, non_camel_case_types, clippy::all)]
use darling::ast::NestedMeta;
use darling::util::{Flag, Override, SpannedValue, WithOriginal};
use darling::{Error, FromMeta, Result};
use std::cell::RefCell;
use std::rc::Rc;
use std::sync::Arc;
use syn::{Expr, Lit, Meta};

include!("../../common/sexp.rs");
include!("../../common/opq.rs");
include!("render_impls.rs");

// ------------------------------------------------------------------------------------------------
// Uninterpreted hooks.  Natively: deterministic functions steered by the literal text.
//   tag = which hook; the symbolic engine returns a fresh Result per (tag, input origin).
fn steer(s: &str, ok: u32) -> Result<u32> {
    if s == "ERR" {
        Err(Error::custom("ERR"))
    } else {
        Ok(ok)
    }
}

#[inline(never)]
pub fn hook_word(tag: u8) -> Result<u32> {
    Ok(100 + tag as u32)
}
#[inline(never)]
pub fn hook_list(tag: u8, items: &[NestedMeta]) -> Result<u32> {
    // `x(ERR)` fails, everything else succeeds with 200 + number of items
    if let Some(NestedMeta::Meta(Meta::Path(p))) = items.first() {
        if p.is_ident("ERR") {
            return Err(Error::custom("ERR"));
        }
    }
    Ok(200 + items.len() as u32)
}
#[inline(never)]
pub fn hook_bool(tag: u8, v: bool) -> Result<u32> {
    Ok(300 + v as u32)
}
#[inline(never)]
pub fn hook_string(tag: u8, v: &str) -> Result<u32> {
    steer(v, 400)
}
#[inline(never)]
pub fn hook_char(tag: u8, v: char) -> Result<u32> {
    if v == 'E' {
        Err(Error::custom("ERR"))
    } else {
        Ok(500)
    }
}
#[inline(never)]
pub fn hook_value(tag: u8, v: &Lit) -> Result<u32> {
    match v {
        Lit::Str(s) => steer(&s.value(), 600),
        Lit::Int(_) => Ok(601),
        _ => Ok(602),
    }
}
#[inline(never)]
pub fn hook_expr(tag: u8, v: &Expr) -> Result<u32> {
    match v {
        Expr::Lit(syn::ExprLit { lit: Lit::Str(s), .. }) => steer(&s.value(), 700),
        Expr::Lit(_) => Ok(701),
        _ => Ok(702),
    }
}
#[inline(never)]
pub fn hook_meta(tag: u8, item: &Meta) -> Result<u32> {
    opq_conv(item).map(|o| o.0)
}

// ------------------------------------------------------------------------------------------------
// Probe implementers: each overrides a subset of the seven hooks (bit i of the mask).
//   bit0 word, bit1 list, bit2 bool, bit3 string, bit4 char, bit5 value (generic literal), bit6 expr
#[derive(Debug, Clone, PartialEq)]
pub struct Hit(pub u8, pub u32); // (hook index, payload)

macro_rules! probe_method {
    (word, $tag:expr) => {
        fn from_word() -> Result<Self> {
            hook_word($tag).map(|p| Self(Hit(0, p)))
        }
    };
    (list, $tag:expr) => {
        fn from_list(items: &[NestedMeta]) -> Result<Self> {
            hook_list($tag, items).map(|p| Self(Hit(1, p)))
        }
    };
    (bool, $tag:expr) => {
        fn from_bool(v: bool) -> Result<Self> {
            hook_bool($tag, v).map(|p| Self(Hit(2, p)))
        }
    };
    (string, $tag:expr) => {
        fn from_string(v: &str) -> Result<Self> {
            hook_string($tag, v).map(|p| Self(Hit(3, p)))
        }
    };
    (char, $tag:expr) => {
        fn from_char(v: char) -> Result<Self> {
            hook_char($tag, v).map(|p| Self(Hit(4, p)))
        }
    };
    (value, $tag:expr) => {
        fn from_value(v: &Lit) -> Result<Self> {
            hook_value($tag, v).map(|p| Self(Hit(5, p)))
        }
    };
    (expr, $tag:expr) => {
        fn from_expr(v: &Expr) -> Result<Self> {
            hook_expr($tag, v).map(|p| Self(Hit(6, p)))
        }
    };
}

macro_rules! probe {
    ($name:ident, $tag:expr, [$($h:ident),*], $e_meta:ident, $e_nested:ident) => {
        #[derive(Debug, Clone, PartialEq)]
        pub struct $name(pub Hit);
        impl FromMeta for $name {
            $(probe_method!($h, $tag);)*
        }
        pub fn $e_meta(item: &Meta) -> Result<$name> {
            <$name as FromMeta>::from_meta(item)
        }
        pub fn $e_nested(item: &NestedMeta) -> Result<$name> {
            <$name as FromMeta>::from_nested_meta(item)
        }
    };
}

include!("probes.rs");

// ------------------------------------------------------------------------------------------------
// Opaque targets for the wrapper property.
//   OpqH: overrides every hook (from_meta is the default dispatcher)      from_none = None
//   OpqM: overrides from_meta only (hooks keep their rejecting defaults)   from_none = None
//   OpqHN / OpqMN: same with a value for the absent case
macro_rules! opq_hooks {
    ($name:ident, $tag:expr, $none:expr) => {
        #[derive(Debug, Clone, PartialEq)]
        pub struct $name(pub u32);
        impl FromMeta for $name {
            fn from_word() -> Result<Self> { hook_word($tag).map($name) }
            fn from_list(items: &[NestedMeta]) -> Result<Self> { hook_list($tag, items).map($name) }
            fn from_bool(v: bool) -> Result<Self> { hook_bool($tag, v).map($name) }
            fn from_string(v: &str) -> Result<Self> { hook_string($tag, v).map($name) }
            fn from_char(v: char) -> Result<Self> { hook_char($tag, v).map($name) }
            fn from_value(v: &Lit) -> Result<Self> { hook_value($tag, v).map($name) }
            fn from_expr(v: &Expr) -> Result<Self> { hook_expr($tag, v).map($name) }
            fn from_none() -> Option<Self> { $none }
        }
        impl Render for $name { fn render(&self) -> String { self.0.to_string() } }
    };
}
macro_rules! opq_meta {
    ($name:ident, $tag:expr, $none:expr) => {
        #[derive(Debug, Clone, PartialEq)]
        pub struct $name(pub u32);
        impl FromMeta for $name {
            fn from_meta(item: &Meta) -> Result<Self> { hook_meta($tag, item).map($name) }
            fn from_none() -> Option<Self> { $none }
        }
        impl Render for $name { fn render(&self) -> String { self.0.to_string() } }
    };
}
opq_hooks!(OpqH, 201, None);
opq_hooks!(OpqHN, 202, Some(OpqHN(9500)));
opq_meta!(OpqM, 203, None);
opq_meta!(OpqMN, 204, Some(OpqMN(9500)));

macro_rules! wrapper_entries {
    ($w:ty, $t:ty, $e_meta:ident, $e_none:ident, $e_list:ident, $b_meta:ident) => {
        pub fn $e_meta(item: &Meta) -> Result<$w> { <$w as FromMeta>::from_meta(item) }
        pub fn $e_none() -> Option<$w> { <$w as FromMeta>::from_none() }
        pub fn $e_list(items: &[NestedMeta]) -> Result<$w> { <$w as FromMeta>::from_list(items) }
        pub fn $b_meta(item: &Meta) -> Result<$t> { <$t as FromMeta>::from_meta(item) }
    };
}

include!("wrappers.rs");

// ------------------------------------------------------------------------------------------------
// C11 scalar conversions
macro_rules! scalar_entries {
    ($t:ty, $e_str:ident, $e_val:ident, $e_meta:ident) => {
        pub fn $e_str(s: &str) -> Result<$t> { <$t as FromMeta>::from_string(s) }
        pub fn $e_val(v: &Lit) -> Result<$t> { <$t as FromMeta>::from_value(v) }
        pub fn $e_meta(item: &Meta) -> Result<$t> { <$t as FromMeta>::from_meta(item) }
    };
}
include!("scalars.rs");

// ------------------------------------------------------------------------------------------------
// C14 keyed collections (values: the opaque Opq conversion)
use std::collections::{BTreeMap, HashMap};
pub fn entry_hm_string(items: &[NestedMeta]) -> Result<HashMap<String, Opq>> {
    FromMeta::from_list(items)
}
pub fn entry_bm_string(items: &[NestedMeta]) -> Result<BTreeMap<String, Opq>> {
    FromMeta::from_list(items)
}
pub fn entry_hm_ident(items: &[NestedMeta]) -> Result<HashMap<syn::Ident, Opq>> {
    FromMeta::from_list(items)
}
pub fn entry_bm_ident(items: &[NestedMeta]) -> Result<BTreeMap<syn::Ident, Opq>> {
    FromMeta::from_list(items)
}
pub fn entry_hm_path(items: &[NestedMeta]) -> Result<HashMap<syn::Path, Opq>> {
    FromMeta::from_list(items)
}
pub fn render_map<K: ToString, V: Render>(m: impl IntoIterator<Item = (K, V)>) -> String {
    let mut v: Vec<(String, String)> = m.into_iter().map(|(k, v)| (k.to_string(), v.render())).collect();
    v.sort();
    format!("{{{}}}", v.iter().map(|(k, v)| format!("{}:{}", jstr(k), v)).collect::<Vec<_>>().join(","))
}
