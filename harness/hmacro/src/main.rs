// native runner: (derive <which> "<item source>") -> {"impl":n,"errors":[..]} | panic
#![allow(unused)]
use hmacro::*;
use std::io::BufRead;

fn run(req: &Sx) -> String {
    let l = req.list();
    let which = l[1].atom();
    let di: syn::DeriveInput = match syn::parse_str(l[2].text()) { Ok(d) => d, Err(e) => return format!("{{\"parse_error\":{}}}", jstr(&e.to_string())) };
    let ts = match which {
        "from_meta" => entry_from_meta(&di),
        "from_derive_input" => entry_from_derive_input(&di),
        "from_field" => entry_from_field(&di),
        "from_variant" => entry_from_variant(&di),
        "from_type_param" => entry_from_type_param(&di),
        "from_attributes" => entry_from_attributes(&di),
        other => panic!("unknown derive {}", other),
    };
    if l[0].atom() == "derive_text" {
        return jstr(&ts.to_string());
    }
    // classify the output: items that are impl blocks, compile_error! invocations with their messages
    let text = ts.to_string();
    let mut errors = vec![];
    let mut impls = 0;
    match syn::parse2::<syn::File>(ts.clone()) {
        Ok(f) => {
            for it in f.items {
                match it {
                    syn::Item::Impl(_) => impls += 1,
                    syn::Item::Macro(m) if m.mac.path.segments.last().map(|s| s.ident == "compile_error").unwrap_or(false) => {
                        errors.push(m.mac.tokens.to_string());
                    }
                    other => errors.push(format!("?item {}", quote::ToTokens::to_token_stream(&other))),
                }
            }
        }
        Err(e) => return format!("{{\"unparsable_output\":{},\"text\":{}}}", jstr(&e.to_string()), jstr(&text)),
    }
    format!("{{\"impls\":{},\"errors\":[{}]}}", impls, errors.iter().map(|e| jstr(e)).collect::<Vec<_>>().join(","))
}

fn main() {
    std::panic::set_hook(Box::new(|_| {}));
    let stdin = std::io::stdin();
    for line in stdin.lock().lines() {
        let line = line.unwrap();
        if line.trim().is_empty() {
            continue;
        }
        let req = parse_sx(&line);
        let out = match catch(move || run(&req)) {
            Ok(s) => format!("{{\"result\":{}}}", s),
            Err(m) => format!("{{\"panic\":{}}}", jstr(&m)),
        };
        println!("{}", out);
    }
}
