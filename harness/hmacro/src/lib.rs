// The six derives as functions DeriveInput -> TokenStream (C06 / C10)
#![allow(unused, non_snake_case, clippy::all)]
use proc_macro2::TokenStream;
use syn::DeriveInput;

include!("../../common/sexp.rs");

pub fn entry_from_meta(di: &DeriveInput) -> TokenStream {
    darling_core::derive::from_meta(di)
}
pub fn entry_from_derive_input(di: &DeriveInput) -> TokenStream {
    darling_core::derive::from_derive_input(di)
}
pub fn entry_from_field(di: &DeriveInput) -> TokenStream {
    darling_core::derive::from_field(di)
}
pub fn entry_from_variant(di: &DeriveInput) -> TokenStream {
    darling_core::derive::from_variant(di)
}
pub fn entry_from_type_param(di: &DeriveInput) -> TokenStream {
    darling_core::derive::from_type_param(di)
}
pub fn entry_from_attributes(di: &DeriveInput) -> TokenStream {
    darling_core::derive::from_attributes(di)
}
