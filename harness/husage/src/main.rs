// native runner of the usage-analysis harness
#![allow(unused)]
use husage::*;
use std::io::BufRead;
use syn::visit_mut::{self, VisitMut};

// `__group!(T)` / `__verbatim!()` stand for the two syn::Type forms that cannot be written in source text
struct Markers(Option<String>);
impl VisitMut for Markers {
    fn visit_type_mut(&mut self, t: &mut syn::Type) {
        if let syn::Type::Macro(m) = t {
            if m.mac.path.is_ident("__group") {
                let mut inner: syn::Type = match syn::parse2(m.mac.tokens.clone()) {
                    Ok(t) => t,
                    Err(e) => {
                        self.0 = Some(format!("group body: {}", e));
                        return;
                    }
                };
                self.visit_type_mut(&mut inner);
                *t = syn::Type::Group(syn::TypeGroup { group_token: Default::default(), elem: Box::new(inner) });
                return;
            }
            if m.mac.path.is_ident("__verbatim") {
                *t = syn::Type::Verbatim(proc_macro2::TokenStream::new());
                return;
            }
        }
        visit_mut::visit_type_mut(self, t);
    }
}
fn ty(src: &str) -> Result<syn::Type, String> {
    let mut t: syn::Type = syn::parse_str(src).map_err(|e| e.to_string())?;
    let mut m = Markers(None);
    m.visit_type_mut(&mut t);
    match m.0 {
        Some(e) => Err(e),
        None => Ok(t),
    }
}
fn id(s: &str) -> syn::Ident {
    syn::Ident::new(s, proc_macro2::Span::call_site())
}
fn lt(s: &str) -> syn::Lifetime {
    syn::Lifetime::new(s, proc_macro2::Span::call_site())
}
fn out(r: (bool, bool, usize)) -> String {
    format!("{{\"a\":{},\"b\":{},\"len\":{}}}", r.0, r.1, r.2)
}

fn run(req: &Sx) -> String {
    let l = req.list();
    let what = l[0].atom();
    if what == "declared" {
        let g: syn::DeriveInput = match syn::parse_str(l[1].text()) { Ok(g) => g, Err(e) => return format!("{{\"parse_error\":{}}}", jstr(&e.to_string())) };
        let r = entry_declared(&g.generics, &id(l[2].text()), &lt(l[3].text()));
        return format!("{{\"tp\":{},\"ntp\":{},\"lt\":{},\"nlt\":{}}}", r.0, r.1, r.2, r.3);
    }
    // (kind "<source>" declare|bound "a" "b" n)
    let declare = l[2].atom() == "declare";
    let n: u8 = l[5].atom().parse().unwrap();
    let (a, b) = (l[3].text(), l[4].text());
    match what {
        "tp_type" => match ty(l[1].text()) { Ok(t) => out(entry_tp_type(&t, declare, &id(a), &id(b), n)), Err(e) => format!("{{\"parse_error\":{}}}", jstr(&e)) },
        "lt_type" => match ty(l[1].text()) { Ok(t) => out(entry_lt_type(&t, declare, &lt(a), &lt(b), n)), Err(e) => format!("{{\"parse_error\":{}}}", jstr(&e)) },
        "tp_vec" | "tp_vec_cloned" | "lt_vec" => {
            // the source is a tuple type; its elements are the collection
            let t = match ty(l[1].text()) { Ok(t) => t, Err(e) => return format!("{{\"parse_error\":{}}}", jstr(&e)) };
            let v: Vec<syn::Type> = match t { syn::Type::Tuple(t) => t.elems.into_iter().collect(), other => vec![other] };
            match what {
                "tp_vec" => out(entry_tp_vec(&v, declare, &id(a), &id(b), n)),
                "tp_vec_cloned" => out(entry_tp_vec_cloned(&v, declare, &id(a), &id(b), n)),
                _ => out(entry_lt_vec(&v, declare, &lt(a), &lt(b), n)),
            }
        }
        "tp_fields" => {
            let di: syn::DeriveInput = match syn::parse_str(l[1].text()) { Ok(g) => g, Err(e) => return format!("{{\"parse_error\":{}}}", jstr(&e.to_string())) };
            let mut di = di;
            let mut m = Markers(None);
            m.visit_derive_input_mut(&mut di);
            if let Some(e) = m.0 {
                return format!("{{\"parse_error\":{}}}", jstr(&e));
            }
            match &di.data { syn::Data::Struct(s) => out(entry_tp_fields(&s.fields, declare, &id(a), &id(b), n)), _ => panic!("struct expected") }
        }
        other => panic!("unknown request {}", other),
    }
}

fn main() {
    std::panic::set_hook(Box::new(|_| {}));
    let stdin = std::io::stdin();
    for line in stdin.lock().lines() {
        let line = line.unwrap();
        if line.trim().is_empty() {
            continue;
        }
        let req = parse_sx(&line);
        let out = match catch(move || run(&req)) {
            Ok(s) => format!("{{\"result\":{}}}", s),
            Err(m) => format!("{{\"panic\":{}}}", jstr(&m)),
        };
        println!("{}", out);
    }
}
