// Generic-parameter usage analysis (C19a): UsesTypeParams / UsesLifetimes / Collect* / GenericsExt
#![allow(unused, non_snake_case, clippy::all)]
use darling::usage::{CollectLifetimes, CollectTypeParams, GenericsExt, IdentSet, LifetimeSet, Options, Purpose, UsesLifetimes, UsesTypeParams};
use syn::{Ident, Lifetime};

include!("../../common/sexp.rs");

fn opts(declare: bool) -> Options {
    (if declare { Purpose::Declare } else { Purpose::BoundImpl }).into()
}
fn idset(a: &Ident, b: &Ident, n: u8) -> IdentSet {
    let mut set = IdentSet::default();
    if n >= 1 {
        set.insert(a.clone());
    }
    if n >= 2 {
        set.insert(b.clone());
    }
    set
}
fn ltset(a: &Lifetime, b: &Lifetime, n: u8) -> LifetimeSet {
    let mut set = LifetimeSet::default();
    if n >= 1 {
        set.insert(a.clone());
    }
    if n >= 2 {
        set.insert(b.clone());
    }
    set
}

/// (a in answer, b in answer, size of the answer)
pub fn entry_tp_type(ty: &syn::Type, declare: bool, a: &Ident, b: &Ident, n: u8) -> (bool, bool, usize) {
    let set = idset(a, b, n);
    let hits = ty.uses_type_params(&opts(declare), &set);
    (hits.contains(a), hits.contains(b), hits.len())
}
pub fn entry_lt_type(ty: &syn::Type, declare: bool, a: &Lifetime, b: &Lifetime, n: u8) -> (bool, bool, usize) {
    let set = ltset(a, b, n);
    let hits = ty.uses_lifetimes(&opts(declare), &set);
    (hits.contains(a), hits.contains(b), hits.len())
}
/// a collection: the answer is the union of the members' answers
pub fn entry_tp_vec(tys: &Vec<syn::Type>, declare: bool, a: &Ident, b: &Ident, n: u8) -> (bool, bool, usize) {
    let set = idset(a, b, n);
    let hits = tys.iter().collect_type_params(&opts(declare), &set);
    (hits.contains(a), hits.contains(b), hits.len())
}
pub fn entry_tp_vec_cloned(tys: &Vec<syn::Type>, declare: bool, a: &Ident, b: &Ident, n: u8) -> (bool, bool, usize) {
    let set = idset(a, b, n);
    let hits = tys.iter().collect_type_params_cloned(&opts(declare), &set);
    (hits.contains(a), hits.contains(b), hits.len())
}
pub fn entry_lt_vec(tys: &Vec<syn::Type>, declare: bool, a: &Lifetime, b: &Lifetime, n: u8) -> (bool, bool, usize) {
    let set = ltset(a, b, n);
    let hits = tys.iter().collect_lifetimes(&opts(declare), &set);
    (hits.contains(a), hits.contains(b), hits.len())
}
/// a field list (struct body): union over the fields' types
pub fn entry_tp_fields(fields: &syn::Fields, declare: bool, a: &Ident, b: &Ident, n: u8) -> (bool, bool, usize) {
    let set = idset(a, b, n);
    let hits = fields.uses_type_params(&opts(declare), &set);
    (hits.contains(a), hits.contains(b), hits.len())
}
/// declared parameters of a generics list: (a declared as a type parameter, number of declared type parameters,
/// a declared as lifetime, number of declared lifetimes)
pub fn entry_declared(g: &syn::Generics, a: &Ident, l: &Lifetime) -> (bool, usize, bool, usize) {
    let tps = g.declared_type_params();
    let lts = g.declared_lifetimes();
    (tps.contains(a), tps.len(), lts.contains(l), lts.len())
}
