#!/usr/bin/env python3
"""Generates harness/hrecv (receiver family crate: lib entries + native runner) from props/recv_spec.py."""
import os
import sys

V = os.path.dirname(os.path.dirname(os.path.abspath(__file__)))
sys.path.insert(0, V)
from props import recv_spec as S  # noqa: E402

PRIMS = {"Opq", "OpqN", "bool", "String", "u8", "u32", "i64"}


def field_attr(r, f):
    o = []
    if f["rename"]:
        o.append('rename = "%s"' % f["rename"])
    if f["default"] == "Default":
        o.append("default")
    elif f["default"] == "fn":
        o.append('default = "dflt_9003"')
    elif f["default"] == "fnvec":
        o.append('default = "dflt_vec"')
    if f["skip"]:
        o.append("skip")
    if f["multiple"]:
        o.append("multiple")
    if f["flatten"]:
        o.append("flatten")
    if f["with_"] == "path":
        o.append('with = opq_with')
    elif f["with_"] == "closure":
        o.append("with = |m: &syn::Meta| opq_with(m)")
    if f["map"]:
        o.append('map = "map_add1000"')
    if f["and_then"]:
        o.append('and_then = "and_then_13"')
    return "    #[darling(%s)]\n" % ", ".join(o) if o else ""


def default_expr(ty, val):
    if ty == "Opq":
        return "Opq(%d)" % val
    if ty == "OpqN":
        return "OpqN(%d)" % val
    if ty == "bool":
        return "true"
    if ty == "String":
        return 'String::from("d%d")' % val
    if ty in ("u8",):
        return "%d" % (val % 200)
    if ty.startswith("Vec<"):
        return "vec![%s]" % default_expr(ty[4:-1], val)
    if ty.startswith("Option<"):
        return "Some(%s)" % default_expr(ty[7:-1], val)
    return "<%s as Default>::default()" % ty


def gen_struct(r):
    out = []
    copts = []
    if r["default"] == "Default":
        copts.append("default")
    if r["rename_all"]:
        copts.append('rename_all = "%s"' % r["rename_all"])
    if r["allow_unknown"]:
        copts.append("allow_unknown_fields")
    if r["and_then"]:
        copts.append('and_then = "Self::check"')
    if r["map"]:
        copts.append('map = "Self::bump"')
    out.append("#[derive(Debug, Clone, FromMeta)]")
    if copts:
        out.append("#[darling(%s)]" % ", ".join(copts))
    out.append("pub struct %s {" % r["name"])
    for f in r["fields"]:
        out.append(field_attr(r, f) + "    pub %s: %s," % (f["name"], f["ty"]))
    out.append("}")
    out.append("impl Default for %s {\n    fn default() -> Self {\n        %s {" % (r["name"], r["name"]))
    for i, f in enumerate(r["fields"]):
        out.append("            %s: %s," % (f["name"], default_expr(f["ty"], S.container_default_value(r, i))))
    out.append("        }\n    }\n}")
    first = r["fields"][0]["name"]
    if r["and_then"]:
        out.append("impl %s {\n    fn check(self) -> darling::Result<Self> {\n        if self.%s.0 == 77 { Err(darling::Error::custom(\"a77\")) } else { Ok(self) }\n    }\n}" % (r["name"], first))
    if r["map"]:
        out.append("impl %s {\n    fn bump(mut self) -> Self {\n        self.%s = Opq(self.%s.0.wrapping_add(7));\n        self\n    }\n}" % (r["name"], first, first))
    fmt = ",".join('\\"%s\\":{}' % f["name"] for f in r["fields"])
    args = ", ".join("self.%s.render()" % f["name"] for f in r["fields"])
    out.append("impl Render for %s {\n    fn render(&self) -> String {\n        format!(\"{{%s}}\", %s)\n    }\n}" % (r["name"], fmt, args))
    out.append("pub fn entry_%s_from_list(items: &[NestedMeta]) -> darling::Result<%s> {\n    <%s as FromMeta>::from_list(items)\n}" % (r["name"], r["name"], r["name"]))
    out.append("pub fn entry_%s_flat(items: &[NestedMeta]) -> Result<%s, Vec<darling::Error>> {\n    <%s as FromMeta>::from_list(items).map_err(|e| e.flatten().into_iter().collect())\n}" % (r["name"], r["name"], r["name"]))
    out.append("pub fn entry_%s_meta_flat(item: &syn::Meta) -> Result<%s, Vec<darling::Error>> {\n    <%s as FromMeta>::from_meta(item).map_err(|e| e.flatten().into_iter().collect())\n}" % (r["name"], r["name"], r["name"]))
    out.append("pub fn entry_%s_from_meta(item: &syn::Meta) -> darling::Result<%s> {\n    <%s as FromMeta>::from_meta(item)\n}" % (r["name"], r["name"], r["name"]))
    return "\n".join(out) + "\n"


def gen_enum(en):
    out = []
    copts = []
    if en["rename_all"]:
        copts.append('rename_all = "%s"' % en["rename_all"])
    if en["allow_unknown"]:
        copts.append("allow_unknown_fields")
    if en["from_word"]:
        copts.append("from_word = || Ok(%s::%s)" % (en["name"], [v["name"] for v in en["variants"] if S.variant_name(en, v) == en["from_word"]][0]))
    if en["from_none"]:
        copts.append("from_none = || Some(%s::%s)" % (en["name"], [v["name"] for v in en["variants"] if S.variant_name(en, v) == en["from_none"]][0]))
    out.append("#[derive(Debug, Clone, FromMeta)]")
    if copts:
        out.append("#[darling(%s)]" % ", ".join(copts))
    out.append("pub enum %s {" % en["name"])
    for v in en["variants"]:
        vo = []
        if v["rename"]:
            vo.append('rename = "%s"' % v["rename"])
        if v["skip"]:
            vo.append("skip")
        if v["word"]:
            vo.append(v.get("word_spelled") or "word")
        if v["explicit_not_word"]:
            vo.append("word = false")
        if vo:
            out.append("    #[darling(%s)]" % ", ".join(vo))
        if v["kind"] == "unit":
            out.append("    %s," % v["name"])
        elif v["kind"] == "newtype":
            out.append("    %s(%s)," % (v["name"], v["ty"]))
        else:
            out.append("    %s {" % v["name"])
            for f in v["fields"]:
                out.append("    " + field_attr(en, f) + "        %s: %s," % (f["name"], f["ty"]))
            out.append("    },")
    out.append("}")
    arms = []
    for v in en["variants"]:
        if v["kind"] == "unit":
            arms.append('            %s::%s => "{\\"v\\":\\"%s\\"}".to_string(),' % (en["name"], v["name"], v["name"]))
        elif v["kind"] == "newtype":
            arms.append('            %s::%s(x) => format!("{{\\"v\\":\\"%s\\",\\"0\\":{}}}", x.render()),' % (en["name"], v["name"], v["name"]))
        else:
            fl = ", ".join(f["name"] for f in v["fields"])
            fmt = ",".join('\\"%s\\":{}' % f["name"] for f in v["fields"])
            args = ", ".join("%s.render()" % f["name"] for f in v["fields"])
            arms.append('            %s::%s { %s } => format!("{{\\"v\\":\\"%s\\",%s}}", %s),' % (en["name"], v["name"], fl, v["name"], fmt, args))
    out.append("impl Render for %s {\n    fn render(&self) -> String {\n        match self {\n%s\n        }\n    }\n}" % (en["name"], "\n".join(arms)))
    n = en["name"]
    out.append("pub fn entry_%s_list_flat(items: &[NestedMeta]) -> Result<%s, Vec<darling::Error>> {\n    <%s as FromMeta>::from_list(items).map_err(|e| e.flatten().into_iter().collect())\n}" % (n, n, n))
    out.append("pub fn entry_%s_string_flat(s: &str) -> Result<%s, Vec<darling::Error>> {\n    <%s as FromMeta>::from_string(s).map_err(|e| e.flatten().into_iter().collect())\n}" % (n, n, n))
    out.append("pub fn entry_%s_meta_flat(item: &syn::Meta) -> Result<%s, Vec<darling::Error>> {\n    <%s as FromMeta>::from_meta(item).map_err(|e| e.flatten().into_iter().collect())\n}" % (n, n, n))
    out.append("pub fn entry_%s_word_flat() -> Result<%s, Vec<darling::Error>> {\n    <%s as FromMeta>::from_word().map_err(|e| e.flatten().into_iter().collect())\n}" % (n, n, n))
    out.append("pub fn entry_%s_none() -> Option<%s> {\n    <%s as FromMeta>::from_none()\n}" % (n, n, n))
    return "\n".join(out) + "\n"


def gen_lib():
    parts = ["// GENERATED by harness/gen_recv.py from props/recv_spec.py - do not edit",
             "#![allow(unused, non_snake_case, clippy::all)]",
             "use darling::ast::NestedMeta;", "use darling::FromMeta;",
             "include!(\"../../common/sexp.rs\");", "include!(\"../../common/opq.rs\");", ""]
    for r in S.STRUCTS:
        parts.append(gen_struct(r))
    for en in S.ENUMS:
        parts.append(gen_enum(en))
    return "\n".join(parts)


def gen_main():
    arms = []
    marms = []
    sarms = []
    warms = []
    for r in S.STRUCTS:
        arms.append('        "%s" => render_result(hrecv::entry_%s_from_list(&items)),' % (r["name"], r["name"]))
        marms.append('        "%s" => render_result(hrecv::entry_%s_from_meta(&item)),' % (r["name"], r["name"]))
    for en in S.ENUMS:
        n = en["name"]
        arms.append('        "%s" => render_result(<%s as darling::FromMeta>::from_list(&items)),' % (n, n))
        marms.append('        "%s" => render_result(<%s as darling::FromMeta>::from_meta(&item)),' % (n, n))
        sarms.append('        "%s" => render_result(<%s as darling::FromMeta>::from_string(s)),' % (n, n))
        warms.append('        "%s" => format!("{{\\"word\\":{},\\"none\\":{}}}", render_result(<%s as darling::FromMeta>::from_word()), <%s as darling::FromMeta>::from_none().render()),' % (n, n, n))
    return """// GENERATED by harness/gen_recv.py - native runner for the receiver family
#![allow(unused)]
use hrecv::*;
use std::io::BufRead;

fn run(req: &Sx) -> String {
    let l = req.list();
    match l[0].atom() {
        "from_list" => {
            let ts: proc_macro2::TokenStream = match l[2].text().parse() {
                Ok(t) => t,
                Err(e) => return format!("{{\\"lex_error\\":{}}}", jstr(&e.to_string())),
            };
            let items = match darling::ast::NestedMeta::parse_meta_list(ts) {
                Ok(i) => i,
                Err(e) => return format!("{{\\"parse_error\\":{}}}", jstr(&e.to_string())),
            };
            run_list(l[1].atom(), items)
        }
        "from_meta" => {
            let item: syn::Meta = match syn::parse_str(l[2].text()) {
                Ok(t) => t,
                Err(e) => return format!("{{\\"parse_error\\":{}}}", jstr(&e.to_string())),
            };
            run_meta(l[1].atom(), item)
        }
        "from_string" => run_string(l[1].atom(), l[2].text()),
        "word_none" => run_word(l[1].atom()),
        other => panic!("unknown request {}", other),
    }
}

fn run_list(name: &str, items: Vec<darling::ast::NestedMeta>) -> String {
    match name {
%s
        other => panic!("unknown receiver {}", other),
    }
}

fn run_meta(name: &str, item: syn::Meta) -> String {
    match name {
%s
        other => panic!("unknown receiver {}", other),
    }
}

fn run_string(name: &str, s: &str) -> String {
    match name {
%s
        other => panic!("unknown receiver {}", other),
    }
}

fn run_word(name: &str) -> String {
    match name {
%s
        other => panic!("unknown receiver {}", other),
    }
}

fn main() {
    std::panic::set_hook(Box::new(|_| {}));
    let stdin = std::io::stdin();
    for line in stdin.lock().lines() {
        let line = line.unwrap();
        if line.trim().is_empty() {
            continue;
        }
        let req = parse_sx(&line);
        let out = match catch(move || run(&req)) {
            Ok(s) => format!("{{\\"result\\":{}}}", s),
            Err(m) => format!("{{\\"panic\\":{}}}", jstr(&m)),
        };
        println!("{}", out);
    }
}
""" % ("\n".join(arms), "\n".join(marms), "\n".join(sarms), "\n".join(warms))


CARGO = """[package]
name = "hrecv"
version = "0.0.0"
edition = "2021"

[workspace]

[lib]
path = "src/lib.rs"

[[bin]]
name = "hrecv_native"
path = "src/main.rs"

[features]
default = ["suggestions"]
suggestions = ["darling/suggestions"]

[dependencies]
darling = { path = "/repo", default-features = false }
syn = { version = "2.0.15", features = ["full", "extra-traits"] }
proc-macro2 = { version = "1.0.86", features = ["span-locations"] }
quote = "1.0.18"
"""


def write_if_changed(path, txt):
    if os.path.exists(path) and open(path).read() == txt:
        return
    os.makedirs(os.path.dirname(path), exist_ok=True)
    with open(path, "w") as f:
        f.write(txt)


def main():
    d = os.path.join(V, "harness", "hrecv")
    write_if_changed(os.path.join(d, "Cargo.toml"), CARGO)
    write_if_changed(os.path.join(d, "src", "lib.rs"), gen_lib())
    write_if_changed(os.path.join(d, "src", "main.rs"), gen_main())


if __name__ == "__main__":
    main()
