// Element-level receivers (FromDeriveInput / FromField / FromVariant / FromTypeParam / FromAttributes)
#![allow(unused, non_snake_case, clippy::all)]
use darling::ast::{self, NestedMeta};
use darling::{FromAttributes, FromDeriveInput, FromField, FromMeta, FromTypeParam, FromVariant};
use syn::{Attribute, DeriveInput};

include!("../../common/sexp.rs");
include!("../../common/opq.rs");

type R<T> = Result<T, Vec<darling::Error>>;
fn fl<T>(r: darling::Result<T>) -> R<T> {
    r.map_err(|e| e.flatten().into_iter().collect())
}

// ---- attribute selection / merging / forwarding (C08)
#[derive(Debug, FromDeriveInput)]
#[darling(attributes(my), forward_attrs(doc, allow))]
pub struct D1 {
    pub ident: syn::Ident,
    pub attrs: Vec<Attribute>,
    pub a: Opq,
    #[darling(default)]
    pub b: Opq,
}
#[derive(Debug, FromDeriveInput)]
#[darling(attributes(my, other), forward_attrs)]
pub struct D2 {
    pub attrs: Vec<Attribute>,
    pub a: Option<Opq>,
    #[darling(multiple)]
    pub m: Vec<Opq>,
}
// a name both selected and listed for forwarding: selection wins, the attribute is consumed and not forwarded
#[derive(Debug, FromDeriveInput)]
#[darling(attributes(my, other), forward_attrs(other, doc))]
pub struct D3 {
    pub attrs: Vec<Attribute>,
    pub a: Option<Opq>,
}
#[derive(Debug, FromDeriveInput)]
#[darling(attributes(my))]
pub struct D0 {
    pub a: Option<Opq>,
}
#[derive(Debug, FromAttributes)]
#[darling(attributes(my))]
pub struct A1 {
    pub a: Opq,
    #[darling(default)]
    pub b: Opq,
}
#[derive(Debug, Clone, FromField)]
#[darling(attributes(my), forward_attrs(doc))]
pub struct F1 {
    pub ident: Option<syn::Ident>,
    pub ty: syn::Type,
    pub vis: syn::Visibility,
    pub attrs: Vec<Attribute>,
    #[darling(default)]
    pub a: Option<Opq>,
}
#[derive(Debug, Clone, FromVariant)]
#[darling(attributes(my))]
pub struct V1 {
    pub ident: syn::Ident,
    pub discriminant: Option<syn::Expr>,
    pub fields: ast::Fields<F1>,
    #[darling(default)]
    pub a: Option<Opq>,
}
#[derive(Debug, FromTypeParam)]
#[darling(attributes(my))]
pub struct T1 {
    pub ident: syn::Ident,
    pub bounds: Vec<syn::TypeParamBound>,
    pub default: Option<syn::Type>,
    #[darling(default)]
    pub a: Option<Opq>,
}
// ---- magic fields and body conversion (C16)
#[derive(Debug, FromDeriveInput)]
#[darling(attributes(my))]
pub struct D4 {
    pub ident: syn::Ident,
    pub vis: syn::Visibility,
    pub generics: syn::Generics,
    pub data: ast::Data<V1, F1>,
}
// ---- shape validation (C18)
#[derive(Debug, FromDeriveInput)]
#[darling(supports(struct_named, enum_unit))]
pub struct D5 {
    pub ident: syn::Ident,
}
#[derive(Debug, FromDeriveInput)]
#[darling(supports(struct_tuple, enum_newtype, enum_named))]
pub struct D6 {
    pub ident: syn::Ident,
}
#[derive(Debug, FromDeriveInput)]
#[darling(supports(any))]
pub struct D7 {
    pub ident: syn::Ident,
}
#[derive(Debug, FromDeriveInput)]
#[darling(supports(struct_newtype, struct_unit, enum_tuple))]
pub struct D8 {
    pub ident: syn::Ident,
}
#[derive(Debug, FromVariant)]
#[darling(supports(newtype, unit))]
pub struct V2 {
    pub ident: syn::Ident,
}

pub fn entry_D0(di: &DeriveInput) -> R<D0> { fl(D0::from_derive_input(di)) }
pub fn entry_D1(di: &DeriveInput) -> R<D1> { fl(D1::from_derive_input(di)) }
pub fn entry_D2(di: &DeriveInput) -> R<D2> { fl(D2::from_derive_input(di)) }
pub fn entry_D3(di: &DeriveInput) -> R<D3> { fl(D3::from_derive_input(di)) }
pub fn entry_D4(di: &DeriveInput) -> R<D4> { fl(D4::from_derive_input(di)) }
pub fn entry_D5(di: &DeriveInput) -> R<D5> { fl(D5::from_derive_input(di)) }
pub fn entry_D6(di: &DeriveInput) -> R<D6> { fl(D6::from_derive_input(di)) }
pub fn entry_D7(di: &DeriveInput) -> R<D7> { fl(D7::from_derive_input(di)) }
pub fn entry_D8(di: &DeriveInput) -> R<D8> { fl(D8::from_derive_input(di)) }
pub fn entry_A1(attrs: &[Attribute]) -> R<A1> { fl(A1::from_attributes(attrs)) }
pub fn entry_F1(f: &syn::Field) -> R<F1> { fl(F1::from_field(f)) }
pub fn entry_V1(v: &syn::Variant) -> R<V1> { fl(V1::from_variant(v)) }
pub fn entry_V2(v: &syn::Variant) -> R<V2> { fl(V2::from_variant(v)) }
pub fn entry_T1(t: &syn::TypeParam) -> R<T1> { fl(T1::from_type_param(t)) }
// the `generics` magic field in its darling::ast form (C16): params mirrored one to one, where clause kept
pub fn entry_ast_generics(g: &syn::Generics) -> R<ast::Generics<ast::GenericParam>> {
    fl(<ast::Generics<ast::GenericParam> as darling::FromGenerics>::from_generics(g))
}

// ---- the stand-alone shape-set API (C18a)
use darling::util::{Shape, ShapeSet};
pub fn entry_shape_api(named: bool, tuple: bool, unit: bool, newtype: bool, shape: Shape) -> (bool, bool, Result<(), String>) {
    let mut s = ShapeSet::default();
    if named { s.insert(Shape::Named); }
    if tuple { s.insert(Shape::Tuple); }
    if unit { s.insert(Shape::Unit); }
    if newtype { s.insert(Shape::Newtype); }
    (s.is_empty(), s.contains(&shape), s.check(&shape).map_err(|e| e.to_string()))
}
pub fn entry_shape_all(shape: Shape) -> bool {
    let mut s = ShapeSet::default();
    s.insert_all();
    s.contains(&shape)
}
