// native runner of the element-level harness
#![allow(unused)]
use hderive::*;
use quote::ToTokens;
use std::io::BufRead;

fn toks<T: ToTokens>(t: &T) -> String {
    t.to_token_stream().to_string()
}
fn attrs_json(a: &[syn::Attribute]) -> String {
    format!("[{}]", a.iter().map(|x| jstr(&toks(x))).collect::<Vec<_>>().join(","))
}
fn opt<T: Render>(o: &Option<T>) -> String {
    o.render()
}
fn field_json(f: &F1) -> String {
    format!("{{\"ident\":{},\"ty\":{},\"vis\":{},\"attrs\":{},\"a\":{}}}",
        f.ident.as_ref().map(|i| jstr(&i.to_string())).unwrap_or("null".into()), jstr(&toks(&f.ty)), jstr(&toks(&f.vis)), attrs_json(&f.attrs), f.a.render())
}
fn fields_json(f: &darling::ast::Fields<F1>) -> String {
    format!("{{\"style\":{},\"fields\":[{}]}}", jstr(&format!("{:?}", f.style)), f.fields.iter().map(field_json).collect::<Vec<_>>().join(","))
}
fn variant_json(v: &V1) -> String {
    format!("{{\"ident\":{},\"discriminant\":{},\"fields\":{},\"a\":{}}}", jstr(&v.ident.to_string()),
        v.discriminant.as_ref().map(|d| jstr(&toks(d))).unwrap_or("null".into()), fields_json(&v.fields), v.a.render())
}
fn res<T>(r: Result<T, Vec<darling::Error>>, f: impl Fn(&T) -> String) -> String {
    match r {
        Ok(v) => format!("{{\"ok\":{}}}", f(&v)),
        Err(es) => {
            let mut parts = vec![];
            for leaf in es {
                let sp = leaf.explicit_span();
                let range = match sp { Some(s) => { let a = s.start(); let b = s.end(); format!("[{},{},{},{}]", a.line, a.column, b.line, b.column) } None => "null".into() };
                parts.push(format!("{{\"msg\":{},\"span\":{},\"range\":{}}}", jstr(&leaf.to_string()), sp.is_some(), range));
            }
            format!("{{\"err\":[{}]}}", parts.join(","))
        }
    }
}

fn run(req: &Sx) -> String {
    let l = req.list();
    if l[0].atom() == "shape_api" {
        let b = |i: usize| l[i].atom() == "1";
        let sh = match l[5].atom() { "Named" => darling::util::Shape::Named, "Tuple" => darling::util::Shape::Tuple, "Unit" => darling::util::Shape::Unit, _ => darling::util::Shape::Newtype };
        let (e, c, r) = entry_shape_api(b(1), b(2), b(3), b(4), sh);
        return format!("{{\"empty\":{},\"contains\":{},\"check\":{}}}", e, c, match r { Ok(()) => "null".to_string(), Err(m) => jstr(&m) });
    }
    let src = l[2].text();
    match l[0].atom() {
        "di" => {
            let di: syn::DeriveInput = match syn::parse_str(src) { Ok(d) => d, Err(e) => return format!("{{\"parse_error\":{}}}", jstr(&e.to_string())) };
            match l[1].atom() {
                "D0" => res(entry_D0(&di), |d| format!("{{\"a\":{}}}", d.a.render())),
                "D1" => res(entry_D1(&di), |d| format!("{{\"ident\":{},\"attrs\":{},\"a\":{},\"b\":{}}}", jstr(&d.ident.to_string()), attrs_json(&d.attrs), d.a.render(), d.b.render())),
                "D2" => res(entry_D2(&di), |d| format!("{{\"attrs\":{},\"a\":{},\"m\":{}}}", attrs_json(&d.attrs), d.a.render(), d.m.render())),
                "D3" => res(entry_D3(&di), |d| format!("{{\"attrs\":{},\"a\":{}}}", attrs_json(&d.attrs), d.a.render())),
                "D4" => res(entry_D4(&di), |d| {
                    let data = match &d.data {
                        darling::ast::Data::Struct(f) => format!("{{\"struct\":{}}}", fields_json(f)),
                        darling::ast::Data::Enum(vs) => format!("{{\"enum\":[{}]}}", vs.iter().map(variant_json).collect::<Vec<_>>().join(",")),
                    };
                    format!("{{\"ident\":{},\"vis\":{},\"generics\":{},\"where\":{},\"data\":{}}}", jstr(&d.ident.to_string()), jstr(&toks(&d.vis)), jstr(&toks(&d.generics)),
                        jstr(&d.generics.where_clause.as_ref().map(toks).unwrap_or_default()), data)
                }),
                "D5" => res(entry_D5(&di), |d| jstr(&d.ident.to_string())),
                "D6" => res(entry_D6(&di), |d| jstr(&d.ident.to_string())),
                "D7" => res(entry_D7(&di), |d| jstr(&d.ident.to_string())),
                "D8" => res(entry_D8(&di), |d| jstr(&d.ident.to_string())),
                "A1" => res(entry_A1(&di.attrs), |d| format!("{{\"a\":{},\"b\":{}}}", d.a.render(), d.b.render())),
                "F1" => match &di.data { syn::Data::Struct(s) => res(entry_F1(s.fields.iter().next().expect("field")), field_json), _ => panic!("struct expected") },
                "V1" => match &di.data { syn::Data::Enum(e) => res(entry_V1(e.variants.iter().next().expect("variant")), variant_json), _ => panic!("enum expected") },
                "V2" => match &di.data { syn::Data::Enum(e) => res(entry_V2(e.variants.iter().next().expect("variant")), |v| jstr(&v.ident.to_string())), _ => panic!("enum expected") },
                "T1" => res(entry_T1(di.generics.type_params().next().expect("type param")), |t| format!("{{\"ident\":{},\"bounds\":[{}],\"default\":{},\"a\":{}}}", jstr(&t.ident.to_string()),
                        t.bounds.iter().map(|b| jstr(&toks(b))).collect::<Vec<_>>().join(","), t.default.as_ref().map(|d| jstr(&toks(d))).unwrap_or("null".into()), t.a.render())),
                other => panic!("unknown receiver {}", other),
            }
        }
        "ast_generics" => {
            let di: syn::DeriveInput = match syn::parse_str(src) { Ok(d) => d, Err(e) => return format!("{{\"parse_error\":{}}}", jstr(&e.to_string())) };
            res(entry_ast_generics(&di.generics), |g| format!("{{\"params\":{},\"where\":{}}}", g.params.len(),
                match &g.where_clause { Some(w) => jstr(&quote::ToTokens::to_token_stream(w).to_string()), None => "null".into() }))
        }
        other => panic!("unknown request {}", other),
    }
}

fn main() {
    std::panic::set_hook(Box::new(|_| {}));
    let stdin = std::io::stdin();
    for line in stdin.lock().lines() {
        let line = line.unwrap();
        if line.trim().is_empty() {
            continue;
        }
        let req = parse_sx(&line);
        let out = match catch(move || run(&req)) {
            Ok(s) => format!("{{\"result\":{}}}", s),
            Err(m) => format!("{{\"panic\":{}}}", jstr(&m)),
        };
        println!("{}", out);
    }
}
