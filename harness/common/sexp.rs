// Minimal s-expression reader and JSON writer helpers shared by the native runners.
#[derive(Debug, Clone, PartialEq)]
pub enum Sx {
    Atom(String),
    Str(String),
    List(Vec<Sx>),
}

impl Sx {
    pub fn list(&self) -> &[Sx] {
        match self {
            Sx::List(v) => v,
            _ => panic!("expected list, got {:?}", self),
        }
    }
    pub fn atom(&self) -> &str {
        match self {
            Sx::Atom(s) => s,
            _ => panic!("expected atom, got {:?}", self),
        }
    }
    pub fn text(&self) -> &str {
        match self {
            Sx::Atom(s) | Sx::Str(s) => s,
            _ => panic!("expected text, got {:?}", self),
        }
    }
    pub fn head(&self) -> &str {
        self.list()[0].atom()
    }
    pub fn num(&self) -> i128 {
        self.atom().parse().expect("number")
    }
}

pub fn parse_sx(src: &str) -> Sx {
    let cs: Vec<char> = src.chars().collect();
    let mut i = 0;
    let r = parse_at(&cs, &mut i);
    r
}

fn skip_ws(cs: &[char], i: &mut usize) {
    while *i < cs.len() && cs[*i].is_whitespace() {
        *i += 1;
    }
}

fn parse_at(cs: &[char], i: &mut usize) -> Sx {
    skip_ws(cs, i);
    if cs[*i] == '(' {
        *i += 1;
        let mut v = vec![];
        loop {
            skip_ws(cs, i);
            if cs[*i] == ')' {
                *i += 1;
                break;
            }
            v.push(parse_at(cs, i));
        }
        Sx::List(v)
    } else if cs[*i] == '"' {
        *i += 1;
        let mut s = String::new();
        while cs[*i] != '"' {
            if cs[*i] == '\\' {
                *i += 1;
                match cs[*i] {
                    'n' => s.push('\n'),
                    't' => s.push('\t'),
                    'u' => {
                        // \u{XXXX}
                        *i += 2;
                        let mut h = String::new();
                        while cs[*i] != '}' {
                            h.push(cs[*i]);
                            *i += 1;
                        }
                        s.push(char::from_u32(u32::from_str_radix(&h, 16).unwrap()).unwrap());
                    }
                    c => s.push(c),
                }
            } else {
                s.push(cs[*i]);
            }
            *i += 1;
        }
        *i += 1;
        Sx::Str(s)
    } else {
        let mut s = String::new();
        while *i < cs.len() && !cs[*i].is_whitespace() && cs[*i] != '(' && cs[*i] != ')' {
            s.push(cs[*i]);
            *i += 1;
        }
        Sx::Atom(s)
    }
}

pub fn jstr(s: &str) -> String {
    let mut o = String::from("\"");
    for c in s.chars() {
        match c {
            '"' => o.push_str("\\\""),
            '\\' => o.push_str("\\\\"),
            '\n' => o.push_str("\\n"),
            '\t' => o.push_str("\\t"),
            '\r' => o.push_str("\\r"),
            c if (c as u32) < 0x20 => o.push_str(&format!("\\u{:04x}", c as u32)),
            c => o.push(c),
        }
    }
    o.push('"');
    o
}

/// run `f` catching panics; returns Err(message) on panic
pub fn catch<T>(f: impl FnOnce() -> T + std::panic::UnwindSafe) -> std::result::Result<T, String> {
    match std::panic::catch_unwind(f) {
        Ok(v) => Ok(v),
        Err(p) => {
            if let Some(s) = p.downcast_ref::<&str>() {
                Err(s.to_string())
            } else if let Some(s) = p.downcast_ref::<String>() {
                Err(s.clone())
            } else {
                Err("<non-string panic>".into())
            }
        }
    }
}
