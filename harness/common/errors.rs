// Building darling::Error values from s-expressions and rendering them canonically (public API only).
use darling::Error;

pub fn build_error(sx: &Sx) -> Error {
    let l = sx.list();
    match l[0].atom() {
        "custom" => Error::custom(l[1].text()),
        "dup" => Error::duplicate_field(l[1].text()),
        "missing" => Error::missing_field(l[1].text()),
        "unknown_field" => Error::unknown_field(l[1].text()),
        "unknown_field_alt" => Error::unknown_field_with_alts(l[1].text(), &[l[2].text().to_string()]),
        "shape" => Error::unsupported_shape(l[1].text()),
        "shape_exp" => Error::unsupported_shape_with_expected(l[1].text(), &l[2].text().to_string()),
        "format" => Error::unsupported_format(l[1].text()),
        "type" => Error::unexpected_type(l[1].text()),
        "value" => Error::unknown_value(l[1].text()),
        "too_few" => Error::too_few_items(l[1].num() as usize),
        "too_many" => Error::too_many_items(l[1].num() as usize),
        "multiple" => Error::multiple(l[1..].iter().map(build_error).collect()),
        "at" => build_error(&l[2]).at(l[1].text()),
        "span" => {
            let id = proc_macro2::Ident::new("spanned", proc_macro2::Span::call_site());
            build_error(&l[1]).with_span(&id)
        }
        other => panic!("unknown error form {}", other),
    }
}

/// canonical JSON rendering using only the public API
pub fn render_error(e: &Error) -> String {
    let kids: Vec<Error> = e.clone().into_iter().collect();
    let mut s = format!("{{\"msg\":{},\"span\":{},\"len\":{}", jstr(&e.to_string()), e.has_span(), e.len());
    if kids.len() > 1 {
        s.push_str(",\"children\":[");
        for (i, k) in kids.iter().enumerate() {
            if i > 0 {
                s.push(',');
            }
            s.push_str(&render_error(k));
        }
        s.push(']');
    }
    s.push('}');
    s
}
