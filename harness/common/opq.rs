// Opaque leaf type used by generated receivers: its conversion is a single function (`opq_conv`)
// that the symbolic engine treats as an uninterpreted outcome, and that natively is a simple
// deterministic function of the item so that witnesses can steer it:
//   name            -> Ok(Opq(1))
//   name = <int n>  -> Ok(Opq(n))
//   name = "ERR"    -> Err(custom "ERR")            (no span of its own)
//   name = "ERRS"   -> Err(custom "ERRS") spanned at the literal
//   name(...)       -> Ok(Opq(2))
//   anything else   -> Ok(Opq(3))
use darling::FromMeta as _;

#[derive(Debug, Clone, PartialEq, Eq)]
pub struct Opq(pub u32);

#[inline(never)]
pub fn opq_conv(item: &syn::Meta) -> darling::Result<Opq> {
    match item {
        syn::Meta::Path(_) => Ok(Opq(1)),
        syn::Meta::List(_) => Ok(Opq(2)),
        syn::Meta::NameValue(nv) => match &nv.value {
            syn::Expr::Lit(syn::ExprLit { lit: syn::Lit::Int(i), .. }) => match i.base10_parse::<u32>() {
                Ok(n) => Ok(Opq(n)),
                Err(_) => Ok(Opq(3)),
            },
            syn::Expr::Lit(syn::ExprLit { lit: syn::Lit::Str(s), .. }) => {
                let v = s.value();
                if v == "ERR" {
                    Err(darling::Error::custom("ERR"))
                } else if v == "ERRS" {
                    Err(darling::Error::custom("ERRS").with_span(s))
                } else {
                    Ok(Opq(3))
                }
            }
            _ => Ok(Opq(3)),
        },
    }
}

/// second converter, used through `#[darling(with = ...)]`
#[inline(never)]
pub fn opq_with(item: &syn::Meta) -> darling::Result<Opq> {
    opq_conv(item).map(|o| Opq(o.0.wrapping_add(500)))
}

impl darling::FromMeta for Opq {
    fn from_meta(item: &syn::Meta) -> darling::Result<Self> {
        opq_conv(item)
    }
}

impl Default for Opq {
    fn default() -> Self {
        Opq(9000)
    }
}

/// like Opq but with a value for the absent case
#[derive(Debug, Clone, PartialEq, Eq)]
pub struct OpqN(pub u32);

impl darling::FromMeta for OpqN {
    fn from_meta(item: &syn::Meta) -> darling::Result<Self> {
        opq_conv(item).map(|o| OpqN(o.0))
    }
    fn from_none() -> Option<Self> {
        Some(OpqN(9500))
    }
}

pub fn map_add1000(x: Opq) -> Opq {
    Opq(x.0.wrapping_add(1000))
}

pub fn and_then_13(x: Opq) -> darling::Result<Opq> {
    if x.0 == 13 {
        Err(darling::Error::custom("unlucky"))
    } else {
        Ok(Opq(x.0.wrapping_add(2000)))
    }
}

pub fn dflt_9003() -> Opq {
    Opq(9003)
}

pub fn dflt_vec() -> Vec<Opq> {
    vec![Opq(9004), Opq(9005)]
}

// canonical JSON rendering of parsed values
pub trait Render {
    fn render(&self) -> String;
}
impl Render for Opq {
    fn render(&self) -> String {
        self.0.to_string()
    }
}
impl Render for OpqN {
    fn render(&self) -> String {
        self.0.to_string()
    }
}
impl Render for bool {
    fn render(&self) -> String {
        self.to_string()
    }
}
impl Render for u8 {
    fn render(&self) -> String {
        self.to_string()
    }
}
impl Render for u32 {
    fn render(&self) -> String {
        self.to_string()
    }
}
impl Render for i64 {
    fn render(&self) -> String {
        self.to_string()
    }
}
impl Render for String {
    fn render(&self) -> String {
        jstr(self)
    }
}
impl Render for () {
    fn render(&self) -> String {
        "null".into()
    }
}
impl<T: Render> Render for Option<T> {
    fn render(&self) -> String {
        match self {
            Some(v) => format!("{{\"some\":{}}}", v.render()),
            None => "null".into(),
        }
    }
}
impl<T: Render> Render for Vec<T> {
    fn render(&self) -> String {
        format!("[{}]", self.iter().map(|x| x.render()).collect::<Vec<_>>().join(","))
    }
}
impl<T: Render> Render for Box<T> {
    fn render(&self) -> String {
        (**self).render()
    }
}

/// flattened error list with message, explicit-span flag and the span's source range
pub fn render_flat_errors(e: darling::Error) -> String {
    let mut parts = vec![];
    for leaf in e.flatten().into_iter() {
        let sp = leaf.explicit_span();
        let (has, range) = match sp {
            Some(s) => {
                let a = s.start();
                let b = s.end();
                (true, format!("[{},{},{},{}]", a.line, a.column, b.line, b.column))
            }
            None => (false, "null".to_string()),
        };
        parts.push(format!("{{\"msg\":{},\"span\":{},\"range\":{}}}", jstr(&leaf.to_string()), has, range));
    }
    format!("[{}]", parts.join(","))
}

pub fn render_result<T: Render>(r: darling::Result<T>) -> String {
    match r {
        Ok(v) => format!("{{\"ok\":{}}}", v.render()),
        Err(e) => format!("{{\"err\":{}}}", render_flat_errors(e)),
    }
}
