#!/usr/bin/env python3
"""regenerates MANIFEST.json from the table below (kept valid against the schema)"""
import json, os
V = os.path.dirname(os.path.dirname(os.path.abspath(__file__)))
props = [json.loads(l) for l in open(os.path.join(V, "properties.jsonl"))]
CLAIMED = json.load(open(os.path.join(V, "tools", "claimed.json")))
checks = []
na = []
for p in props:
    pid = p["id"]
    c = CLAIMED.get(pid)
    if c and c.get("claimed"):
        checks.append({
            "property_id": pid,
            "quick_cmd": "./check %s --tier quick" % pid,
            "thorough_cmd": "./check %s --tier thorough" % pid,
            "evidence_file": "evidence/%s.json" % pid,
            "replay_cmd_template": "./check %s --replay {path}" % pid,
            "engine": "mirsym",
            "level_claimed": {"category": "model_checking", "text": c["text"], "design_ref": c.get("design_ref", "DESIGN.md section 5")},
            "level_note": c["note"],
            "technique": c["technique"],
        })
    else:
        na.append({"property_id": pid, "reason": (c or {}).get("reason", "check not built yet (framework under construction, see DESIGN.md section 10)")})
m = {
    "version": 1,
    "setup_cmd": "./setup.sh",
    "hooks": {"guard": "darling_verif", "enable": "no source hooks are needed: checks read private state from the compiler's MIR of the unmodified /repo working tree",
              "baseline_off_cmd": "cd /repo && cargo test --workspace --no-fail-fast --offline", "source_commits": [], "add_only": True},
    "engines": [{"name": "mirsym", "path": "mirsym/", "serves_properties": [c["property_id"] for c in checks],
                 "kind_free_text": "symbolic executor (Python + z3 5.1) over rustc's monomorphic MIR of /repo and of the code darling_macro generates, dumped on every run by tools/mirdump (rustc_public driver); native replay through harness/*/src/main.rs"}],
    "checks": checks,
    "notes": "see DESIGN.md; exit 0 = held, 1 = VIOLATION (natively replayed), 2 = inconclusive (engine problem, not a verdict)",
    "not_applicable": na,
}
json.dump(m, open(os.path.join(V, "MANIFEST.json"), "w"), indent=1)
print("claimed:", [c["property_id"] for c in checks])
