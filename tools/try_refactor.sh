#!/bin/bash
# usage: tools/try_refactor.sh <patch.diff>  -- applies a behaviour-preserving change to /repo, runs every quick check, always reverts
patch="$1"
cd /verif
git -C /repo apply "$patch" || { echo "patch does not apply"; exit 3; }
trap 'git -C /repo checkout -- . ; rm -f /verif/replays/*.json' EXIT
for p in C01 C02 C03 C04 C05 C06 C07 C08 C09 C10 C11 C12 C13 C14 C15 C16 C17 C18 C19; do
  timeout -s KILL 1500 ./check $p --tier quick > /tmp/ref_$p.log 2>&1
  rc=$?
  echo -n "$p=$rc "
  if [ $rc -ne 0 ]; then echo; grep -E "VIOLATION|ENGINE" /tmp/ref_$p.log | head -3 | cut -c1-260; fi
done
echo
