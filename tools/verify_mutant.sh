#!/bin/bash
# usage: tools/verify_mutant.sh <worktree>  -- confirms a sub-agent's mutant: demo fails with patch, passes without, existing suite passes with
# a first line `CRATE=darling_core` in _mutant/notes.txt puts the demonstration into core/tests instead of tests
wt="$1"; cd "$wt" || exit 3
export CARGO_NET_OFFLINE=true
tag=$(basename "$wt")
git checkout -q -- . ; git clean -fdq -e _mutant -e target
if head -1 _mutant/notes.txt 2>/dev/null | grep -q "CRATE=darling_core"; then dst=core/tests; pk="-p darling_core"; else dst=tests; pk="-p darling"; fi
mkdir -p $dst
cp _mutant/zz_mutant_demo.rs $dst/zz_mutant_demo.rs
cargo test --offline $pk --test zz_mutant_demo > /tmp/vm_clean_$tag.log 2>&1; rc_clean=$?
git apply _mutant/patch.diff || { echo "patch does not apply"; exit 3; }
cargo test --offline $pk --test zz_mutant_demo > /tmp/vm_mut_$tag.log 2>&1; rc_mut=$?
rm $dst/zz_mutant_demo.rs
cargo test --workspace --offline --no-fail-fast > /tmp/vm_suite_$tag.log 2>&1; rc_suite=$?
npass=$(grep -E "^test result" /tmp/vm_suite_$tag.log | sed -E 's/.* ([0-9]+) passed.*/\1/' | paste -sd+ | bc)
echo "demo clean rc=$rc_clean (want 0); demo mutant rc=$rc_mut (want !=0); suite with mutant rc=$rc_suite (want 0), $npass tests passed"
grep -E "^test result" /tmp/vm_mut_$tag.log | head -3
grep -E "^test result: FAILED|^error" /tmp/vm_suite_$tag.log | head
git checkout -q -- .
