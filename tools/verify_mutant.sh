#!/bin/bash
# usage: tools/verify_mutant.sh <worktree>  -- confirms a sub-agent's mutant: demo fails with patch, passes without, existing suite passes with
wt="$1"; cd "$wt" || exit 3
export CARGO_NET_OFFLINE=true
git checkout -q -- . ; git clean -fdq -e _mutant -e target
cp _mutant/zz_mutant_demo.rs tests/zz_mutant_demo.rs
cargo test --offline --test zz_mutant_demo > /tmp/vm_clean.log 2>&1; rc_clean=$?
git apply _mutant/patch.diff || { echo "patch does not apply"; exit 3; }
cargo test --offline --test zz_mutant_demo > /tmp/vm_mut.log 2>&1; rc_mut=$?
rm tests/zz_mutant_demo.rs
cargo test --workspace --offline --no-fail-fast > /tmp/vm_suite.log 2>&1; rc_suite=$?
echo "demo clean rc=$rc_clean (want 0); demo mutant rc=$rc_mut (want !=0); suite with mutant rc=$rc_suite (want 0)"
grep -E "^test result" /tmp/vm_mut.log | head -3
grep -E "^test result: FAILED|^error" /tmp/vm_suite.log | head
