// mirdump: rustc_public driver that serialises the monomorphic MIR reachable from
// `pub fn entry_*` items of the crate being compiled, together with side tables
// (types, ADT layouts, resolved callees, drop glue, allocations, vtables).
//
// Used as RUSTC_WORKSPACE_WRAPPER: argv = [mirdump, <real rustc>, rustc args...].
// Env: MIRDUMP_OUT (output json path), MIRDUMP_STOP (file with glob patterns of
// instance names whose bodies are not descended into), MIRDUMP_CRATE (crate name to
// analyse; other crates are compiled normally).
#![feature(rustc_private)]
extern crate rustc_driver;
extern crate rustc_interface;
extern crate rustc_middle;
extern crate rustc_public;
extern crate rustc_public_bridge;
extern crate serde_json;

use rustc_public::mir::alloc::{AllocId, GlobalAlloc};
use rustc_public::mir::mono::{Instance, InstanceKind};
use rustc_public::mir::visit::{Location, MirVisitor};
use rustc_public::mir::*;
use rustc_public::ty::*;
use rustc_public::{CrateDef, ItemKind};
use rustc_public_bridge::IndexedVal;
use serde_json::{json, Map, Value};
use std::collections::{BTreeMap, HashMap, HashSet, VecDeque};
use std::ops::ControlFlow;

fn glob(p: &[u8], s: &[u8]) -> bool {
    // '*' matches any (possibly empty) sequence
    let (mut pi, mut si, mut star, mut mark) = (0usize, 0usize, usize::MAX, 0usize);
    while si < s.len() {
        if pi < p.len() && p[pi] == b'*' {
            star = pi;
            mark = si;
            pi += 1;
        } else if pi < p.len() && p[pi] == s[si] {
            pi += 1;
            si += 1;
        } else if star != usize::MAX {
            pi = star + 1;
            mark += 1;
            si = mark;
        } else {
            return false;
        }
    }
    while pi < p.len() && p[pi] == b'*' {
        pi += 1;
    }
    pi == p.len()
}

/// canonical spelling of re-exported paths (rustc prints the shortest visible path per crate)
fn norm_name(n: &str) -> String {
    let mut out = n.replace("darling_core::", "darling::");
    let pat = "syn::Ident";
    let mut res = String::new();
    let mut rest = out.as_str();
    while let Some(i) = rest.find(pat) {
        let after = rest[i + pat.len()..].chars().next();
        res.push_str(&rest[..i]);
        if after.map_or(true, |c| !(c.is_alphanumeric() || c == '_')) {
            res.push_str("proc_macro2::Ident");
        } else {
            res.push_str(pat);
        }
        rest = &rest[i + pat.len()..];
    }
    res.push_str(rest);
    out = res;
    out
}

struct StopRule {
    pat: String,
    aux: Vec<(String, usize)>,
}

struct Dump {
    stop: Vec<StopRule>,
    queue: VecDeque<Instance>,
    seen: HashSet<usize>,
    instances: Map<String, Value>,
    types: Map<String, Value>,
    type_seen: HashSet<usize>,
    nolayout: HashSet<usize>,
    cur_nolayout: bool,
    type_queue: Vec<Ty>,
    fndefs: Map<String, Value>,
    drops: Map<String, Value>,
    allocs: Map<String, Value>,
    alloc_queue: Vec<AllocId>,
    alloc_seen: HashSet<usize>,
    vtables: Map<String, Value>,
    traits: HashMap<String, TraitDef>,
}

fn iid(i: &Instance) -> usize {
    i.def.to_index()
}

struct Collector<'a> {
    d: &'a mut Dump,
    locals: Vec<LocalDecl>,
}

impl<'a> MirVisitor for Collector<'a> {
    fn visit_ty(&mut self, ty: &Ty, _l: Location) {
        self.d.note_ty(*ty);
    }
    fn visit_mir_const(&mut self, c: &MirConst, l: Location) {
        self.d.note_ty(c.ty());
        if let ConstantKind::Allocated(a) = c.kind() {
            self.d.note_allocation(a);
        }
        self.super_mir_const(c, l);
    }
    fn visit_terminator(&mut self, t: &Terminator, l: Location) {
        if let TerminatorKind::Drop { place, .. } = &t.kind {
            if let Ok(ty) = place.ty(&self.locals) {
                self.d.note_drop(ty);
            }
        }
        if let TerminatorKind::Call { func, args, destination, .. } = &t.kind {
            if let Ok(ty) = func.ty(&self.locals) {
                self.d.note_ty(ty);
            }
            for a in args {
                if let Ok(ty) = a.ty(&self.locals) {
                    self.d.note_ty(ty);
                }
            }
            if let Ok(ty) = destination.ty(&self.locals) {
                self.d.note_ty(ty);
            }
        }
        self.super_terminator(t, l);
    }
    fn visit_rvalue(&mut self, rv: &Rvalue, l: Location) {
        if let Ok(ty) = rv.ty(&self.locals) {
            self.d.note_ty(ty);
        }
        match rv {
            Rvalue::Cast(CastKind::PointerCoercion(PointerCoercion::Unsize), op, to) => {
                if let Ok(from) = op.ty(&self.locals) {
                    self.d.note_unsize(from, *to);
                }
            }
            Rvalue::Cast(CastKind::PointerCoercion(PointerCoercion::ClosureFnPointer(_)), op, _) => {
                if let Ok(from) = op.ty(&self.locals) {
                    if let TyKind::RigidTy(RigidTy::Closure(def, args)) = from.kind() {
                        if let Ok(inst) = Instance::resolve_closure(def, &args, ClosureKind::FnOnce) {
                            let id = self.d.enqueue(inst);
                            self.d.fndefs.insert(
                                from.to_index().to_string(),
                                json!({"inst": id, "fnptr_inst": id, "abi": "Rust", "closure": true}),
                            );
                        }
                    }
                }
            }
            Rvalue::Aggregate(AggregateKind::Adt(def, _, args, _, _), _) => {
                let t = def.ty_with_args(args);
                self.d.note_ty(t);
            }
            _ => {}
        }
        self.super_rvalue(rv, l);
    }
    fn visit_place(&mut self, place: &Place, ptx: visit::PlaceContext, l: Location) {
        // record intermediate place types (needed for Downcast / Deref typing)
        let mut ty = self.locals[place.local].ty;
        for e in &place.projection {
            match e.ty(ty) {
                Ok(t) => {
                    self.d.note_ty(t);
                    ty = t;
                }
                Err(_) => break,
            }
        }
        self.super_place(place, ptx, l);
    }
}

impl Dump {
    fn stopped(&self, name: &str) -> Option<&StopRule> {
        let name = norm_name(name);
        if self.stop.iter().any(|r| r.pat.starts_with('!') && glob(r.pat[1..].as_bytes(), name.as_bytes())) {
            return None;
        }
        self.stop.iter().find(|r| !r.pat.starts_with('!') && glob(r.pat.as_bytes(), name.as_bytes()))
    }

    fn enqueue(&mut self, inst: Instance) -> usize {
        let id = iid(&inst);
        if self.seen.insert(id) {
            self.queue.push_back(inst);
        }
        id
    }

    fn note_ty(&mut self, ty: Ty) {
        if self.type_seen.insert(ty.to_index()) {
            if self.cur_nolayout {
                self.nolayout.insert(ty.to_index());
            }
            self.type_queue.push(ty);
        }
    }
    fn note_ty_nolayout(&mut self, ty: Ty) {
        let save = self.cur_nolayout;
        self.cur_nolayout = true;
        self.note_ty(ty);
        self.cur_nolayout = save;
    }

    fn note_drop(&mut self, ty: Ty) {
        self.note_ty(ty);
        let key = ty.to_index().to_string();
        if self.drops.contains_key(&key) {
            return;
        }
        let inst = Instance::resolve_drop_in_place(ty);
        let empty = inst.is_empty_shim();
        let id = if empty { iid(&inst) } else { self.enqueue(inst) };
        self.drops.insert(key, json!({"inst": id, "empty": empty}));
    }

    fn note_allocation(&mut self, a: &Allocation) {
        for (_, prov) in &a.provenance.ptrs {
            let id = prov.0;
            if self.alloc_seen.insert(id.to_index()) {
                self.alloc_queue.push(id);
            }
        }
    }

    fn note_unsize(&mut self, from: Ty, to: Ty) {
        // from: &T / *T / Box<T>, to: &dyn Trait etc.
        fn pointee(t: Ty) -> Option<Ty> {
            match t.kind() {
                TyKind::RigidTy(RigidTy::Ref(_, p, _)) | TyKind::RigidTy(RigidTy::RawPtr(p, _)) => Some(p),
                TyKind::RigidTy(RigidTy::Adt(def, args)) if def.is_box() => args.0.get(0).and_then(|a| a.ty().copied()),
                _ => None,
            }
        }
        let (Some(mut src), Some(mut dst)) = (pointee(from), pointee(to)) else { return };
        // struct with unsized tail: descend into the last field on both sides
        loop {
            match (src.kind(), dst.kind()) {
                (TyKind::RigidTy(RigidTy::Adt(d1, a1)), TyKind::RigidTy(RigidTy::Adt(d2, a2))) if d1.kind() == AdtKind::Struct && d2.kind() == AdtKind::Struct => {
                    let f1 = d1.variants()[0].fields();
                    let f2 = d2.variants()[0].fields();
                    match (f1.last(), f2.last()) {
                        (Some(x), Some(y)) => {
                            src = x.ty_with_args(&a1);
                            dst = y.ty_with_args(&a2);
                        }
                        _ => return,
                    }
                }
                _ => break,
            }
        }
        self.note_ty(src);
        self.note_ty(dst);
        if let TyKind::RigidTy(RigidTy::Dynamic(..)) = dst.kind() {
            let key = format!("{}:{}", src.to_index(), dst.to_index());
            if self.vtables.contains_key(&key) {
                return;
            }
            let mut methods = vec![];
            if let Some(principal) = dst.kind().trait_principal() {
                let dbg = format!("{:?}", principal);
                if dbg.contains("Bound") && !principal.bound_vars.is_empty() || dbg.contains("ReBound") {
                    self.vtables.insert(key, json!({"src": src.to_index(), "dst": dst.to_index(), "entries": [], "skipped": true}));
                    return;
                }
                let tr = principal.with_self_ty(src).skip_binder();
                for e in tr.vtable_entries() {
                    match e {
                        VtblEntry::Method(inst) => {
                            let id = self.enqueue(inst);
                            methods.push(json!(id));
                        }
                        _ => methods.push(Value::Null),
                    }
                }
            }
            self.note_drop(src);
            self.vtables.insert(key, json!({"src": src.to_index(), "dst": dst.to_index(), "entries": methods}));
        }
    }

    fn fn_abi_str(ty: Ty) -> String {
        match ty.kind().fn_sig() {
            Some(sig) => format!("{:?}", sig.skip_binder().abi),
            None => "?".into(),
        }
    }

    fn process_types(&mut self) {
        while let Some(ty) = self.type_queue.pop() {
            let kind = ty.kind();
            let mut rec = Map::new();
            rec.insert("kind".into(), serde_json::to_value(&kind).unwrap_or(Value::Null));
            rec.insert("str".into(), json!(format!("{}", ty)));
            self.cur_nolayout = self.nolayout.contains(&ty.to_index());
            let layout_ok = !self.cur_nolayout
                && matches!(
                    &kind,
                    TyKind::RigidTy(
                        RigidTy::Adt(..) | RigidTy::Tuple(..) | RigidTy::Array(..) | RigidTy::Int(..) | RigidTy::Uint(..)
                            | RigidTy::Bool | RigidTy::Char | RigidTy::Float(..) | RigidTy::Ref(..) | RigidTy::RawPtr(..)
                            | RigidTy::Closure(..) | RigidTy::FnPtr(..)
                    )
                );
            if layout_ok {
                if let Ok(l) = ty.layout() {
                    let sh = l.shape();
                    rec.insert("layout".into(), serde_json::to_value(&sh).unwrap_or(Value::Null));
                }
            }
            match &kind {
                TyKind::RigidTy(r) => match r {
                    RigidTy::Adt(def, args) => {
                        let mut variants = vec![];
                        let akind = def.kind();
                        for (i, v) in def.variants().iter().enumerate() {
                            let mut fields = vec![];
                            for f in v.fields() {
                                let fty = f.ty_with_args(args);
                                self.note_ty(fty);
                                fields.push(json!({"name": f.name, "ty": fty.to_index()}));
                            }
                            let discr = if akind == AdtKind::Enum {
                                def.discriminant_for_variant(VariantIdx::to_val(i)).val.to_string()
                            } else {
                                "0".into()
                            };
                            variants.push(json!({"name": v.name(), "discr": discr, "fields": fields}));
                        }
                        rec.insert(
                            "adt".into(),
                            json!({"name": def.name(), "kind": format!("{:?}", akind), "variants": variants, "is_box": def.is_box(),
                                   "args": args.0.iter().map(|a| match a { GenericArgKind::Type(t) => { json!(t.to_index()) } _ => Value::Null }).collect::<Vec<_>>() }),
                        );
                        for a in &args.0 {
                            if let GenericArgKind::Type(t) = a {
                                self.note_ty(*t);
                            }
                        }
                        if akind == AdtKind::Enum {
                            if let Some(dt) = kind.discriminant_ty() {
                                self.note_ty(dt);
                                rec.insert("discr_ty".into(), json!(dt.to_index()));
                            }
                        }
                    }
                    RigidTy::Array(t, n) => {
                        self.note_ty(*t);
                        if let Ok(n) = n.eval_target_usize() {
                            rec.insert("len".into(), json!(n));
                        }
                    }
                    RigidTy::Slice(t) | RigidTy::RawPtr(t, _) | RigidTy::Ref(_, t, _) | RigidTy::Pat(t, _) => self.note_ty(*t),
                    RigidTy::Tuple(ts) => {
                        for t in ts {
                            self.note_ty(*t);
                        }
                    }
                    RigidTy::FnDef(def, args) => {
                        let key = ty.to_index().to_string();
                        if !self.fndefs.contains_key(&key) {
                            let i1 = Instance::resolve(*def, args).ok();
                            let i2 = Instance::resolve_for_fn_ptr(*def, args).ok();
                            let id1 = i1.map(|i| self.enqueue(i));
                            let id2 = i2.map(|i| self.enqueue(i));
                            self.fndefs.insert(
                                key,
                                json!({"inst": id1, "fnptr_inst": id2, "abi": Self::fn_abi_str(ty), "name": def.name()}),
                            );
                        }
                    }
                    RigidTy::Closure(def, args) => {
                        let key = ty.to_index().to_string();
                        let mut m = Map::new();
                        for (k, ck) in [("fn", ClosureKind::Fn), ("fnmut", ClosureKind::FnMut), ("fnonce", ClosureKind::FnOnce)] {
                            if let Ok(i) = Instance::resolve_closure(*def, args, ck) {
                                let id = self.enqueue(i);
                                m.insert(k.into(), json!(id));
                            }
                        }
                        rec.insert("closure".into(), Value::Object(m));
                        let _ = key;
                    }
                    RigidTy::FnPtr(sig) => {
                        let s = sig.clone().skip_binder();
                        for t in s.inputs_and_output.iter() {
                            self.note_ty_nolayout(*t);
                        }
                    }
                    _ => {}
                },
                _ => {}
            }
            self.cur_nolayout = false;
            self.types.insert(ty.to_index().to_string(), Value::Object(rec));
        }
    }

    fn process_allocs(&mut self) {
        while let Some(id) = self.alloc_queue.pop() {
            let ga = GlobalAlloc::from(id);
            let v = match &ga {
                GlobalAlloc::Function(inst) => {
                    let i = self.enqueue(*inst);
                    json!({"Function": i})
                }
                GlobalAlloc::Memory(a) => {
                    self.note_allocation(a);
                    json!({"Memory": serde_json::to_value(a).unwrap_or(Value::Null)})
                }
                GlobalAlloc::Static(s) => match s.eval_initializer() {
                    Ok(a) => {
                        self.note_allocation(&a);
                        json!({"Static": {"name": s.name(), "ty": s.ty().to_index(), "init": serde_json::to_value(&a).unwrap_or(Value::Null)}})
                    }
                    Err(_) => json!({"Static": {"name": s.name()}}),
                },
                GlobalAlloc::VTable(ty, tr) => {
                    self.note_ty(*ty);
                    let mut methods = vec![];
                    if let Some(b) = tr {
                        let t = b.with_self_ty(*ty).skip_binder();
                        for e in t.vtable_entries() {
                            match e {
                                VtblEntry::Method(inst) => {
                                    let i = self.enqueue(inst);
                                    methods.push(json!(i));
                                }
                                _ => methods.push(Value::Null),
                            }
                        }
                    }
                    self.note_drop(*ty);
                    json!({"VTable": {"ty": ty.to_index(), "entries": methods}})
                }
                GlobalAlloc::TypeId { ty } => json!({"TypeId": ty.to_index()}),
            };
            self.allocs.insert(id.to_index().to_string(), v);
        }
    }

    fn resolve_trait_method(&mut self, tr: &str, method: &str, self_ty: Ty, extra: &[GenericArgKind]) -> Option<Instance> {
        let td = *self.traits.get(tr)?;
        for ai in td.associated_items() {
            let nm = ai.def_id.name(); if nm.rsplit("::").next() == Some(method) {
                let fd = FnDef(ai.def_id.0);
                let mut args = vec![GenericArgKind::Type(self_ty)];
                args.extend_from_slice(extra);
                return Instance::resolve(fd, &GenericArgs(args)).ok();
            }
        }
        None
    }

    fn aux_for(&mut self, inst: &Instance, rule_aux: &[(String, usize)]) -> Value {
        let args = inst.args();
        let mut out = Map::new();
        // closures / fn items among the generic args: always resolved
        for (i, a) in args.0.iter().enumerate() {
            if let GenericArgKind::Type(t) = a {
                self.note_ty(*t);
                match t.kind() {
                    TyKind::RigidTy(RigidTy::Closure(def, cargs)) => {
                        let mut m = Map::new();
                        for (k, ck) in [("fn", ClosureKind::Fn), ("fnmut", ClosureKind::FnMut), ("fnonce", ClosureKind::FnOnce)] {
                            if let Ok(ci) = Instance::resolve_closure(def, &cargs, ck) {
                                let id = self.enqueue(ci);
                                m.insert(k.into(), json!(id));
                            }
                        }
                        out.insert(format!("closure{}", i), Value::Object(m));
                    }
                    TyKind::RigidTy(RigidTy::FnDef(def, fargs)) => {
                        if let Ok(fi) = Instance::resolve(def, &fargs) {
                            let id = self.enqueue(fi);
                            out.insert(format!("fn{}", i), json!(id));
                        }
                    }
                    _ => {}
                }
            }
        }
        for (what, idx) in rule_aux {
            let tys: Vec<Ty> = args.0.iter().filter_map(|a| a.ty().copied()).collect();
            let Some(t) = tys.get(*idx).copied() else { continue };
            let (tr, m): (&str, &str) = match what.as_str() {
                "next" => ("std::iter::Iterator", "next"),
                "into_iter" => ("std::iter::IntoIterator", "into_iter"),
                "display" => ("std::fmt::Display", "fmt"),
                "debug" => ("std::fmt::Debug", "fmt"),
                "eq" => ("std::cmp::PartialEq", "eq"),
                "cmp" => ("std::cmp::Ord", "cmp"),
                "clone" => ("std::clone::Clone", "clone"),
                "default" => ("std::default::Default", "default"),
                "to_tokens" => ("quote::ToTokens", "to_tokens"),
                "drop" => {
                    self.note_drop(t);
                    continue;
                }
                _ => continue,
            };
            let extra: Vec<GenericArgKind> = if what == "eq" { vec![GenericArgKind::Type(t)] } else { vec![] };
            if let Some(i) = self.resolve_trait_method(tr, m, t, &extra) {
                let id = self.enqueue(i);
                out.insert(format!("{}{}", what, idx), json!(id));
            }
        }
        Value::Object(out)
    }

    fn process_instance(&mut self, inst: Instance) {
        let id = iid(&inst);
        let name = inst.name();
        let mut rec = Map::new();
        rec.insert("name".into(), json!(name));
        rec.insert("mangled".into(), json!(inst.mangled_name()));
        rec.insert("kind".into(), serde_json::to_value(&inst.kind).unwrap());
        if let Some(n) = inst.intrinsic_name() {
            rec.insert("intrinsic".into(), json!(n));
        }
        let args = inst.args();
        rec.insert(
            "args".into(),
            Value::Array(
                args.0
                    .iter()
                    .map(|a| match a {
                        GenericArgKind::Type(t) => {
                            self.note_ty(*t);
                            json!({"ty": t.to_index()})
                        }
                        GenericArgKind::Const(c) => json!({"const": format!("{:?}", c.kind())}),
                        GenericArgKind::Lifetime(_) => json!("lt"),
                    })
                    .collect(),
            ),
        );
        let fty = inst.ty();
        self.note_ty(fty);
        rec.insert("ty".into(), json!(fty.to_index()));
        rec.insert("abi".into(), json!(Self::fn_abi_str(fty)));
        let stop_aux: Option<Vec<(String, usize)>> = self.stopped(&name).map(|r| r.aux.clone());
        let can_body = (inst.has_body() && matches!(inst.kind, InstanceKind::Item | InstanceKind::Intrinsic)) || matches!(inst.kind, InstanceKind::Shim);
        rec.insert("has_body".into(), json!(can_body));
        if let Some(aux) = stop_aux {
            rec.insert("stopped".into(), json!(true));
            let a = self.aux_for(&inst, &aux);
            rec.insert("aux".into(), a);
            // signature types are still needed by models (normalised, from the ABI)
            if let Ok(abi) = inst.fn_abi() {
                let mut tys: Vec<usize> = vec![];
                for a in abi.args.iter() {
                    self.note_ty(a.ty);
                    tys.push(a.ty.to_index());
                }
                self.note_ty(abi.ret.ty);
                tys.push(abi.ret.ty.to_index());
                rec.insert("sig".into(), json!(tys));
            }
        } else if !can_body {
            if let Ok(abi) = inst.fn_abi() {
                let mut tys: Vec<usize> = vec![];
                for a in abi.args.iter() {
                    self.note_ty(a.ty);
                    tys.push(a.ty.to_index());
                }
                self.note_ty(abi.ret.ty);
                tys.push(abi.ret.ty.to_index());
                rec.insert("sig".into(), json!(tys));
            }
        } else {
            if let Some(mut body) = inst.body() {
                body.var_debug_info.clear();
                let locals: Vec<LocalDecl> = body.locals().to_vec();
                {
                    let mut c = Collector { d: self, locals };
                    c.visit_body(&body);
                }
                rec.insert("body".into(), serde_json::to_value(&body).unwrap_or(Value::Null));
            }
        }
        self.instances.insert(id.to_string(), Value::Object(rec));
    }
}

fn analyze() -> ControlFlow<()> {
    let want = std::env::var("MIRDUMP_CRATE").unwrap_or_default();
    let local = rustc_public::local_crate();
    if local.name != want {
        return ControlFlow::Continue(());
    }
    let out = std::env::var("MIRDUMP_OUT").expect("MIRDUMP_OUT");
    let mut stop = vec![];
    if let Ok(p) = std::env::var("MIRDUMP_STOP") {
        for line in std::fs::read_to_string(&p).expect("stop file").lines() {
            let line = line.trim();
            if line.is_empty() || line.starts_with('#') {
                continue;
            }
            // format: <glob> [|| aux=name:idx,name:idx]
            let (pat, aux) = match line.split_once(" || ") {
                Some((p, a)) => (p.trim().to_string(), a.trim().to_string()),
                None => (line.to_string(), String::new()),
            };
            let mut auxv = vec![];
            for item in aux.split(',') {
                if let Some((k, v)) = item.trim().split_once(':') {
                    if let Ok(n) = v.parse::<usize>() {
                        auxv.push((k.to_string(), n));
                    }
                }
            }
            stop.push(StopRule { pat, aux: auxv });
        }
    }
    let mut traits = HashMap::new();
    for td in rustc_public::all_trait_decls() {
        traits.insert(td.name(), td);
    }
    let mut d = Dump {
        stop,
        queue: VecDeque::new(),
        seen: HashSet::new(),
        instances: Map::new(),
        types: Map::new(),
        type_seen: HashSet::new(),
        nolayout: HashSet::new(),
        cur_nolayout: false,
        type_queue: vec![],
        fndefs: Map::new(),
        drops: Map::new(),
        allocs: Map::new(),
        alloc_queue: vec![],
        alloc_seen: HashSet::new(),
        vtables: Map::new(),
        traits,
    };
    let mut entries = BTreeMap::new();
    for item in rustc_public::all_local_items() {
        if item.kind() != ItemKind::Fn {
            continue;
        }
        let name = item.name();
        let short = name.rsplit("::").next().unwrap_or("").to_string();
        if !short.starts_with("entry_") || item.requires_monomorphization() {
            continue;
        }
        if let Ok(inst) = Instance::try_from(item) {
            let id = d.enqueue(inst);
            entries.insert(short, id);
        }
    }
    loop {
        if let Some(inst) = d.queue.pop_front() {
            d.process_instance(inst);
            continue;
        }
        if !d.type_queue.is_empty() {
            d.process_types();
            continue;
        }
        if !d.alloc_queue.is_empty() {
            d.process_allocs();
            continue;
        }
        break;
    }
    let doc = json!({
        "crate": local.name,
        "entries": entries,
        "instances": d.instances,
        "types": d.types,
        "fndefs": d.fndefs,
        "drops": d.drops,
        "allocs": d.allocs,
        "vtables": d.vtables,
    });
    std::fs::write(&out, serde_json::to_vec(&doc).unwrap()).expect("write dump");
    ControlFlow::Continue(())
}

fn main() {
    let mut args: Vec<String> = std::env::args().collect();
    // workspace-wrapper protocol: argv[1] is the path of the real rustc
    if args.len() > 1 && (args[1].ends_with("rustc") || args[1].contains("/rustc")) {
        args.remove(1);
    }
    let _ = rustc_public::run!(&args, analyze);
}
