#!/bin/bash
# usage: tools/try_mutant.sh <patch.diff> <tier> <prop>...   -- applies the patch to /repo, runs the checks, always reverts
patch="$1"; tier="$2"; shift; shift
cd /verif
git -C /repo apply "$patch" || { echo "patch does not apply"; exit 3; }
trap 'git -C /repo checkout -- . ; rm -f /verif/replays/*.json' EXIT
for p in "$@"; do
  timeout -s KILL 1500 ./check $p --tier $tier > /tmp/mut_$p.log 2>&1
  rc=$?
  echo "== $p ($tier) exit=$rc"; grep -E "VIOLATION|INCONCLUSIVE|ENGINE|KNOWN" /tmp/mut_$p.log | head -4 | cut -c1-300
done
