"""Turning interpreter values into plain python structures, using the dumped type table."""
import z3

from mirsym.values import *
from mirsym.core import Unsupported


class L:
    """reference to an (unexpanded or pristine) symbolic input by name"""
    __slots__ = ("name",)

    def __init__(self, name):
        self.name = name

    def __eq__(self, o):
        return isinstance(o, L) and o.name == self.name

    def __hash__(self):
        return hash(("L", self.name))

    def __repr__(self):
        return "<%s>" % self.name


def _zname(e):
    if is_sym(e) and z3.is_const(e) and e.decl().kind() == z3.Z3_OP_UNINTERPRETED:
        return e.decl().name()
    return None


def pristine(I, st, v, tid=None):
    """name N if v is exactly (an expansion of) the lazy input N, else None"""
    if isinstance(v, Lazy):
        return v.name if not v.excl else None
    n = _zname(v)
    if n is not None:
        return n
    if isinstance(v, StringVal):
        return _zname(v.s)
    if isinstance(v, VecVal):
        if not v.elems:
            return None
        ns = [pristine(I, st, e) for e in v.elems]
        if any(x is None for x in ns):
            return None
        base = ns[0].rsplit("[", 1)[0]
        if all(x == "%s[%d]" % (base, i) for i, x in enumerate(ns)) and st.decisions.get(base + "#len") == len(ns):
            return base
        return None
    if isinstance(v, Ptr) and isinstance(v.cell, tuple) and v.cell[0] == "L" and not v.path:
        inner = st.heap.get(v.cell)
        n = pristine(I, st, inner) if inner is not None else None
        if n is not None and n == v.cell[1]:
            return n[:-1] if n.endswith("*") else None
    return None


def field_index(t, name, variant=0):
    for i, f in enumerate(t.adt["variants"][variant]["fields"]):
        if f["name"] == name:
            return i
    raise KeyError(name)


def variant_index(t, name):
    for i, v in enumerate(t.adt["variants"]):
        if v["name"] == name:
            return i
    raise KeyError(name)


def view(I, st, v, tid, depth=0, collapse=True):
    """python rendering of value v of type tid.  Symbolic scalars stay z3 expressions; inputs that were
    never looked at (or only copied) are rendered as L(name)."""
    t = I.types[tid]
    if depth > 40:
        raise Unsupported("view depth")
    if collapse:
        p = pristine(I, st, v, tid)
        if p is not None and not (t.kind in ("int", "bool", "char", "float")):
            return L(p)
    if isinstance(v, Lazy):
        return L(v.name)
    k = t.kind
    if k in ("int", "bool", "char", "float"):
        return v
    if k == "pat":
        return view(I, st, v, t.elem, depth + 1, collapse)
    if k in ("ref", "rawptr"):
        pt = I.types[t.elem]
        if pt.kind == "str":
            from mirsym.models import str_of
            return str_of(I, st, v)
        if isinstance(v, Ptr):
            if pt.kind == "slice":
                from mirsym.models import slice_elems
                return [view(I, st, e, pt.elem, depth + 1, collapse) for e in slice_elems(I, st, v)]
            return view(I, st, I.read(st, v, expand_scalar=False), t.elem, depth + 1, collapse)
        return v
    if k == "tuple":
        if isinstance(v, Agg):
            return tuple(view(I, st, x, ty, depth + 1, collapse) for x, ty in zip(v.f, t.tys))
        return v
    if k == "array":
        if isinstance(v, Agg):
            return [view(I, st, x, t.elem, depth + 1, collapse) for x in v.f]
        return v
    if k == "adt":
        n = t.adt["name"]
        if isinstance(v, StringVal):
            return v.s
        if isinstance(v, VecVal):
            et = t.adt["args"][0]
            return [view(I, st, x, et, depth + 1, collapse) for x in v.elems]
        if isinstance(v, Opaque):
            return v
        if t.adt.get("is_box") and isinstance(v, Agg):
            p = I.unwrap_ptr(v)
            return view(I, st, I.read(st, p, expand_scalar=False), t.adt["args"][0], depth + 1, collapse)
        if isinstance(v, Agg):
            vi = v.v if v.v is not None else 0
            vd = t.adt["variants"][vi]
            out = {"_": n if t.is_struct else "%s::%s" % (n, vd["name"])}
            if t.is_enum:
                out["_v"] = vd["name"]
            for i, f in enumerate(vd["fields"]):
                out[f["name"]] = view(I, st, v.f[i], f["ty"], depth + 1, collapse) if i < len(v.f) else None
            return out
        return v
    return v
