"""Building harness crates against /repo's current working tree: MIR dump (nightly + mirdump
wrapper) and native runner (stable).  Cached by a hash of every source file involved."""
import hashlib
import os
import subprocess
import sys
import time

VERIF = os.path.dirname(os.path.dirname(os.path.abspath(__file__)))
REPO = os.environ.get("VERIF_REPO", "/repo")
BUILD = os.path.join(VERIF, "build")
MIRDUMP = os.path.join(VERIF, "tools", "mirdump", "target", "debug", "mirdump")


def _files(root, exts=(".rs", ".toml", ".lock")):
    out = []
    for dp, dn, fn in os.walk(root):
        dn[:] = [d for d in dn if d not in ("target", ".git", "build")]
        for f in fn:
            if f.endswith(exts):
                out.append(os.path.join(dp, f))
    return sorted(out)


def tree_hash(paths, extra=""):
    h = hashlib.sha256()
    h.update(extra.encode())
    for root in paths:
        if os.path.isfile(root):
            fs = [root]
        else:
            fs = _files(root)
        for f in fs:
            h.update(f.encode())
            with open(f, "rb") as fh:
                h.update(fh.read())
    return h.hexdigest()[:20]


def repo_hash():
    return tree_hash([os.path.join(REPO, "src"), os.path.join(REPO, "core"), os.path.join(REPO, "macro"),
                      os.path.join(REPO, "Cargo.toml")])


def nightly_sysroot():
    return subprocess.check_output(["rustc", "+nightly", "--print", "sysroot"], text=True).strip()


def ensure_mirdump():
    if os.path.exists(MIRDUMP):
        return
    env = dict(os.environ)
    env["CARGO_NET_OFFLINE"] = "true"
    env["LD_LIBRARY_PATH"] = nightly_sysroot() + "/lib"
    subprocess.check_call(["cargo", "+nightly", "build", "--offline"], cwd=os.path.join(VERIF, "tools", "mirdump"), env=env)


def stoplist_path(opts=()):
    sys.path.insert(0, VERIF)
    from mirsym import models
    from mirsym import syn_models, harness_models  # noqa: F401  (register more models)
    os.makedirs(BUILD, exist_ok=True)
    txt = models.stoplist_text(opts)
    p = os.path.join(BUILD, "stop%s.txt" % ("-" + "-".join(sorted(opts)) if opts else ""))
    if not os.path.exists(p) or open(p).read() != txt:
        with open(p, "w") as f:
            f.write(txt)
    return p


def _prep_crate(crate_dir):
    lock = os.path.join(crate_dir, "Cargo.lock")
    if not os.path.exists(lock):
        import shutil
        shutil.copy(os.path.join(REPO, "Cargo.lock"), lock)


def dump_mir(crate, features=None, force=False, quiet=True, opts=()):
    """returns path of the MIR dump json of harness crate `crate` (dir name under harness/)"""
    ensure_mirdump()
    crate_dir = os.path.join(VERIF, "harness", crate)
    _prep_crate(crate_dir)
    stop = stoplist_path(opts)
    key = tree_hash([crate_dir, stop, os.path.join(VERIF, "tools", "mirdump", "src"), os.path.join(VERIF, "harness", "common")],
                    repo_hash() + str(features) + str(sorted(opts)))
    os.makedirs(os.path.join(BUILD, "mir"), exist_ok=True)
    tag = crate + ("+" + "+".join(sorted(opts)) if opts else "")
    out = os.path.join(BUILD, "mir", "%s-%s.json" % (tag, key))
    if os.path.exists(out) and not force:
        return out
    for f in os.listdir(os.path.join(BUILD, "mir")):
        if f.startswith(tag + "-"):
            os.unlink(os.path.join(BUILD, "mir", f))
    env = dict(os.environ)
    env.update({
        "CARGO_NET_OFFLINE": "true",
        "LD_LIBRARY_PATH": nightly_sysroot() + "/lib",
        "MIRDUMP_CRATE": crate,
        "MIRDUMP_OUT": out + ".tmp",
        "MIRDUMP_STOP": stop,
        "RUSTFLAGS": "-Zalways-encode-mir",
        "RUSTC_WORKSPACE_WRAPPER": MIRDUMP,
        "CARGO_TARGET_DIR": os.path.join(BUILD, "target-mir"),
    })
    # force re-run of the wrapper on the harness crate itself
    subprocess.call(["touch", os.path.join(crate_dir, "src", "lib.rs")])
    cmd = ["cargo", "+nightly", "build", "--offline", "--lib"]
    if features is not None:
        cmd += ["--no-default-features", "--features", ",".join(features)] if features else ["--no-default-features"]
    t0 = time.time()
    r = subprocess.run(cmd, cwd=crate_dir, env=env, stdout=subprocess.PIPE, stderr=subprocess.STDOUT, text=True)
    if r.returncode != 0 or not os.path.exists(out + ".tmp"):
        sys.stderr.write(r.stdout[-6000:])
        raise RuntimeError("MIR dump of %s failed" % crate)
    os.replace(out + ".tmp", out)
    if not quiet:
        print("dumped %s in %.1fs" % (crate, time.time() - t0))
    return out


def build_native(crate, features=None, quiet=True):
    """builds the native runner binary (src/main.rs of the harness crate) with the stable toolchain"""
    crate_dir = os.path.join(VERIF, "harness", crate)
    _prep_crate(crate_dir)
    env = dict(os.environ)
    env.update({"CARGO_NET_OFFLINE": "true", "CARGO_TARGET_DIR": os.path.join(BUILD, "target-native")})
    env.pop("RUSTFLAGS", None)
    cmd = ["cargo", "build", "--offline", "--bin", crate + "_native"]
    if features is not None:
        cmd += ["--no-default-features", "--features", ",".join(features)] if features else ["--no-default-features"]
    r = subprocess.run(cmd, cwd=crate_dir, env=env, stdout=subprocess.PIPE, stderr=subprocess.STDOUT, text=True)
    if r.returncode != 0:
        sys.stderr.write(r.stdout[-6000:])
        raise RuntimeError("native build of %s failed" % crate)
    return os.path.join(BUILD, "target-native", "debug", crate + "_native")
