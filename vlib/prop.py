"""Check framework: obligations, native validation/replay, known findings, evidence."""
import json
import os
import subprocess
import sys
import time
import hashlib

import z3

VERIF = os.path.dirname(os.path.dirname(os.path.abspath(__file__)))
sys.path.insert(0, VERIF)


class Native:
    """line-oriented conversation with a native runner binary"""

    def __init__(self, binary):
        self.binary = binary
        self.proc = None
        self.count = 0

    def start(self):
        self.proc = subprocess.Popen([self.binary], stdin=subprocess.PIPE, stdout=subprocess.PIPE, text=True, bufsize=1)

    def ask(self, request):
        if self.proc is None or self.proc.poll() is not None:
            self.start()
        self.proc.stdin.write(request.replace("\n", " ") + "\n")
        self.proc.stdin.flush()
        line = self.proc.stdout.readline()
        self.count += 1
        if not line:
            # the runner died (abort): report and restart lazily
            rc = self.proc.wait()
            self.proc = None
            return {"abort": rc}
        return json.loads(line)

    def close(self):
        if self.proc is not None:
            try:
                self.proc.stdin.close()
                self.proc.wait(timeout=5)
            except Exception:
                self.proc.kill()
            self.proc = None


def sx_str(s):
    out = ['"']
    for ch in s:
        if ch == '"':
            out.append('\\"')
        elif ch == "\\":
            out.append("\\\\")
        elif ch == "\n":
            out.append("\\n")
        elif ch == "\t":
            out.append("\\t")
        elif ord(ch) < 0x20 or ord(ch) == 0x7f:
            out.append("\\u{%x}" % ord(ch))
        else:
            out.append(ch)
    out.append('"')
    return "".join(out)


_JOBS = []
_PARENT = None


def _run_job(i):
    sys.setrecursionlimit(10000)
    sub = _PARENT.sub()
    t0 = time.time()
    try:
        _JOBS[i](sub)
        if os.environ.get("VERIF_VERBOSE"):
            print("  job %d: %.1fs leaves=%d %s" % (i, time.time() - t0, sub.leaves, list(sub.entries)[:2]), flush=True)
    except Exception as ex:  # a crashed worker is an engine problem, never a silent pass
        import traceback
        sub.engine_problems.append("worker %d crashed: %s %s" % (i, ex, traceback.format_exc()[-600:]))
    return sub.summary()


class Check:
    def __init__(self, pid, argv=None):
        self.pid = pid
        argv = argv if argv is not None else sys.argv[1:]
        self.tier = os.environ.get("VERIF_TIER", "quick")
        self.replay = None
        i = 0
        while i < len(argv):
            if argv[i] == "--tier":
                self.tier = argv[i + 1]
                i += 1
            elif argv[i] == "--replay":
                self.replay = argv[i + 1]
                i += 1
            i += 1
        if self.tier not in ("quick", "thorough"):
            self.tier = "quick"
        if self.replay:
            self.do_replay()
        self.seed = int(os.environ.get("VERIF_SEED", "0") or 0)
        self.t0 = time.time()
        self.leaves = 0
        self.branches = 0
        self.obligations = 0
        self.discharged = 0
        self.smt_obligations = 0
        self.native_agree = 0
        self.samples = []
        self.violations = []       # confirmed, not known
        self.known_hits = []
        self.engine_problems = []
        self.functions = set()
        self.models = set()
        self.programs = set()
        self.bounds = {}
        self.outside = []
        self.assumptions = []
        self.solver_queries = 0
        self.solver_time = 0.0
        self.entries = {}
        self.extra = {}
        self.exhaustive = True
        self.must_reach = {}
        self.only_panics = False      # C07 mode: reuse other properties' explorations, keep only panic findings
        self.panic_leaves = []
        self.known = self._load_known()
        self.timeout_ms = 10000 if self.tier == "quick" else 60000
        self._s = None
        self._sq = 0

    def do_replay(self):
        """re-run the native request recorded in a replay file against the current /repo build"""
        from vlib import build
        with open(self.replay) as f:
            rec = json.load(f)
        crate = rec.get("crate", "hcore" if self.pid in ("C04", "C05") else "hrecv")
        nat = Native(build.build_native(crate))
        got = nat.ask(rec["request"])
        nat.close()
        print("request :", rec["request"])
        print("expected:", json.dumps(rec.get("expected"))[:1500])
        print("recorded:", json.dumps(rec.get("observed"))[:1500])
        print("now     :", json.dumps(got)[:1500])
        if got == rec.get("observed"):
            print("VIOLATION property=%s replay=%s (still reproduces)" % (self.pid, self.replay))
            sys.exit(1)
        print("the recorded violation does not reproduce on the current tree")
        sys.exit(0)

    def _solver(self):
        if self._s is None or self._sq > 2000:
            self._s = z3.Solver()
            self._s.set("timeout", self.timeout_ms)
            self._sq = 0
        self._sq += 1
        return self._s

    # -------------------------------------------------------------- known findings
    def _load_known(self):
        p = os.path.join(VERIF, "known_findings.json")
        if not os.path.exists(p):
            return []
        with open(p) as f:
            d = json.load(f)
        return [k for k in d.get("findings", []) if k.get("property") == self.pid and k.get("status", "open") == "open"]

    # -------------------------------------------------------------- accounting
    def absorb(self, I, leaves, entry):
        """account for one exploration"""
        self.leaves += len(leaves)
        self.branches += sum(l.branches for l in leaves)
        self.functions |= I.functions_run
        self.models |= I.models_used
        self.solver_queries += I.stats["solver_queries"]
        self.solver_time += I.stats["solver_time"]
        I.stats["solver_queries"] = 0
        I.stats["solver_time"] = 0.0
        e = self.entries.setdefault(entry, {"leaves": 0, "returned": 0, "panicked": 0, "other": 0})
        for l in leaves:
            e["leaves"] += 1
            if l.status == "panicked" and self.only_panics:
                self.panic_leaves.append("%s: %s" % (entry, l.panics))
            if l.status in ("returned", "panicked"):
                e[l.status] += 1
            else:
                e["other"] += 1
                self.engine_problems.append("%s: %s %s" % (entry, l.status, l.info))
            if l.inconclusive:
                self.engine_problems.append("%s: solver returned unknown on a branch" % entry)

    def check_exhaustive(self, I, leaves, entry):
        """the leaves' path conditions cover every input within the decision domains (solver-checked)"""
        dom = []
        for k, ch in I.domains.items():
            v = z3.Int(k)
            dom.append(z3.Or([v == c for c in ch]))
        from mirsym.lazy import decision_constraints
        seen_assumed = set()
        for l in leaves:
            for a in l.extra.get("assumed", ()):
                if a.get_id() not in seen_assumed:
                    seen_assumed.add(a.get_id())
                    dom.append(a)
        pcs = []
        for l in leaves:
            cs = list(l.pc) + decision_constraints(l)
            pcs.append(z3.And(cs) if cs else z3.BoolVal(True))
        self.obligations += 1
        self.smt_obligations += 1
        s = z3.Solver()
        s.set("timeout", self.timeout_ms)
        t0 = time.time()
        for d in dom:
            s.add(d)
        s.add(z3.Not(z3.Or(pcs)) if pcs else z3.BoolVal(True))
        r = s.check()
        if r == z3.sat and os.environ.get("VERIF_VERBOSE"):
            m = s.model()
            print("  uncovered input class:", sorted((str(d), str(m[d])) for d in m.decls())[:60])
        self.solver_queries += 1
        self.solver_time += time.time() - t0
        if r == z3.unsat:
            self.discharged += 1
            return True
        self.exhaustive = False
        hint = ""
        if r == z3.sat:
            m = s.model() if False else None
        self.engine_problems.append("%s: leaves are not exhaustive (%s)%s" % (entry, r, hint))
        return False

    def reach(self, what):
        self.must_reach[what] = self.must_reach.get(what, 0) + 1

    def require_reached(self, names):
        for n in names:
            if not self.must_reach.get(n):
                self.engine_problems.append("vacuity: no leaf reached '%s'" % n)

    def sample(self, s):
        if len(self.samples) < 12:
            self.samples.append(s)

    # -------------------------------------------------------------- obligations
    def ok(self, n=1):
        self.obligations += n
        self.discharged += n

    def smt_valid(self, pc, claim):
        """True iff pc => claim for all values (negation unsat)"""
        self.obligations += 1
        self.smt_obligations += 1
        if claim is True:
            self.discharged += 1
            return True, None
        t0 = time.time()
        s = self._solver()
        s.push()
        try:
            for c in pc:
                s.add(c)
            s.add(z3.Not(claim) if claim is not False else z3.BoolVal(True))
            r = s.check()
            model = s.model() if r == z3.sat else None
        finally:
            s.pop()
        self.solver_queries += 1
        self.solver_time += time.time() - t0
        if r == z3.unsat:
            self.discharged += 1
            return True, None
        if r == z3.unknown:
            self.engine_problems.append("solver unknown on an obligation")
            return None, None
        return False, model

    def implies(self, pc, claim):
        """probe (not an obligation): does pc imply claim for all values?"""
        o, d, so = self.obligations, self.discharged, self.smt_obligations
        r, _ = self.smt_valid(pc, claim)
        self.obligations, self.discharged, self.smt_obligations = o, d, so
        return bool(r)

    def model_of(self, pc, extra=None):
        s = self._solver()
        s.push()
        try:
            for c in pc:
                s.add(c)
            if extra is not None:
                s.add(extra)
            r = s.check()
            self.solver_queries += 1
            if r == z3.sat:
                return s.model()
            return None
        finally:
            s.pop()

    # -------------------------------------------------------------- violations
    def report(self, key, what, replay):
        """a natively confirmed violation.  key = role of the failing input (for known findings)"""
        if self.only_panics and "panic" not in key:
            return
        for k in self.known:
            if k.get("key") == key:
                if key not in [h[0] for h in self.known_hits]:
                    self.known_hits.append((key, k.get("what", what)))
                return
        if key in [v[0] for v in self.violations]:
            return
        os.makedirs(os.path.join(VERIF, "replays"), exist_ok=True)
        dig = hashlib.sha256(json.dumps(replay, sort_keys=True, default=str).encode()).hexdigest()[:12]
        path = os.path.join(VERIF, "replays", "%s-%s.json" % (self.pid, dig))
        replay.setdefault("crate", getattr(self, "crate", None) or ("hcore" if self.pid in ("C04", "C05") else "hrecv"))
        with open(path, "w") as f:
            json.dump(replay, f, indent=1, default=str)
        self.violations.append((key, what, path))

    def engine(self, msg):
        if self.only_panics and "leaf" not in msg and "panic" not in msg:
            return
        self.engine_problems.append(msg)

    # -------------------------------------------------------------- parallel jobs
    COUNTERS = ("leaves", "branches", "obligations", "discharged", "smt_obligations", "native_agree", "solver_queries", "solver_time")

    def sub(self):
        """a fresh accumulator with the same identity (used inside worker processes)"""
        c = Check.__new__(Check)
        c.__dict__.update(self.__dict__)
        for k in self.COUNTERS:
            setattr(c, k, 0)
        c.samples, c.violations, c.known_hits, c.engine_problems = [], [], [], []
        c.panic_leaves = []
        c.functions, c.models, c.programs = set(), set(), set()
        c.entries, c.must_reach, c.extra = {}, {}, {}
        c.exhaustive = True
        c._s = None
        c._sq = 0
        return c

    def summary(self):
        d = {k: getattr(self, k) for k in self.COUNTERS}
        d.update(panic_leaves=self.panic_leaves, samples=self.samples, violations=self.violations, known_hits=self.known_hits, engine_problems=self.engine_problems,
                 functions=sorted(self.functions), models=sorted(self.models), programs=sorted(self.programs), entries=self.entries,
                 must_reach=self.must_reach, exhaustive=self.exhaustive)
        return d

    def merge(self, d):
        for k in self.COUNTERS:
            setattr(self, k, getattr(self, k) + d[k])
        self.panic_leaves.extend(d.get("panic_leaves", []))
        for sm in d["samples"]:
            self.sample(sm)
        for v in d["violations"]:
            if v[0] not in [x[0] for x in self.violations]:
                self.violations.append(tuple(v))
        for h in d["known_hits"]:
            if h[0] not in [x[0] for x in self.known_hits]:
                self.known_hits.append(tuple(h))
        self.engine_problems.extend(d["engine_problems"])
        self.functions |= set(d["functions"])
        self.models |= set(d["models"])
        self.programs |= set(d["programs"])
        for k, v in d["entries"].items():
            e = self.entries.setdefault(k, {"leaves": 0, "returned": 0, "panicked": 0, "other": 0})
            for kk, vv in v.items():
                e[kk] = e.get(kk, 0) + vv
        for k, v in d["must_reach"].items():
            self.must_reach[k] = self.must_reach.get(k, 0) + v
        self.exhaustive = self.exhaustive and d["exhaustive"]

    def run_jobs(self, jobs, nproc=None):
        """jobs: list of callables f(sub_check).  Run in forked worker processes and merge their results."""
        import multiprocessing
        global _JOBS, _PARENT
        nproc = nproc or min(len(jobs), int(os.environ.get("VERIF_JOBS", "0")) or min(14, os.cpu_count() or 4))
        if nproc <= 1 or len(jobs) <= 1:
            for j in jobs:
                j(self)
            return
        _JOBS = jobs
        _PARENT = self
        ctx = multiprocessing.get_context("fork")
        with ctx.Pool(nproc) as pool:
            for d in pool.imap_unordered(_run_job, range(len(jobs)), chunksize=1):
                self.merge(d)

    # -------------------------------------------------------------- finish
    def finish(self):
        wall = time.time() - self.t0
        if self.only_panics:
            # totality: one obligation per explored leaf - it returned, or its panic was replayed natively and reported
            self.obligations = self.leaves
            self.discharged = self.leaves - len(self.panic_leaves)
            if self.panic_leaves and not self.violations and not self.known_hits:
                self.engine_problems.append("symbolic panics that no native replay confirmed: %s" % "; ".join(self.panic_leaves[:5]))
            elif self.panic_leaves:
                self.discharged = self.obligations
        ev = {
            "property_id": self.pid,
            "tier": self.tier,
            "seed": self.seed,
            "level": "model_checking",
            "coverage": {
                "states": self.leaves,
                "transitions": self.branches,
                "traces_validated_against_impl": self.native_agree,
                "samples": self.samples or ["(none)"],
                "obligations": self.obligations,
                "discharged": self.discharged,
                "smt_obligations": self.smt_obligations,
                "solver_queries": self.solver_queries,
                "solver_time_s": round(self.solver_time, 3),
                "programs": len(self.programs),
                "program_list": sorted(self.programs),
                "entries": self.entries,
                "functions_encoded": sorted(f for f in self.functions if f.startswith(("darling", "<darling", "h", "<h")) or "darling" in f)[:400],
                "functions_encoded_total": len(self.functions),
                "models_used": sorted(self.models)[:300],
                "trusted_base": sorted(set(m.split("::<")[0] for m in self.models))[:200],
                "bounds": self.bounds,
                "outside_bounds": self.outside,
                "exhaustive": bool(self.exhaustive and not self.engine_problems),
                "must_reach": self.must_reach,
                "known_findings_hit": [k for k, _ in self.known_hits],
                "engine_problems": self.engine_problems[:20],
            },
            "assumptions": self.assumptions,
            "wall_s": round(wall, 2),
            "violations": len(self.violations),
        }
        ev["coverage"].update(self.extra)
        if ev["coverage"]["states"] < 1:
            ev["coverage"]["states"] = 1
        if ev["coverage"]["transitions"] < 1:
            ev["coverage"]["transitions"] = 1
        os.makedirs(os.path.join(VERIF, "evidence"), exist_ok=True)
        with open(os.path.join(VERIF, "evidence", "%s.json" % self.pid), "w") as f:
            json.dump(ev, f, indent=1, default=str)
        print("%s tier=%s leaves=%d branches=%d obligations=%d/%d (smt %d) native=%d solver=%d queries %.2fs wall=%.1fs"
              % (self.pid, self.tier, self.leaves, self.branches, self.discharged, self.obligations, self.smt_obligations,
                 self.native_agree, self.solver_queries, self.solver_time, wall))
        for k, w in self.known_hits:
            print("KNOWN-FINDING: property=%s %s" % (self.pid, w))
        if self.violations:
            for key, what, path in self.violations:
                print("VIOLATION property=%s replay=%s  (%s: %s)" % (self.pid, path, key, what))
            sys.exit(1)
        if self.engine_problems:
            for m in self.engine_problems[:15]:
                print("ENGINE: %s" % m)
            print("INCONCLUSIVE property=%s (engine problem; not a verdict on the code)" % self.pid)
            sys.exit(2)
        if self.obligations != self.discharged:
            print("INCONCLUSIVE property=%s: %d obligations not discharged" % (self.pid, self.obligations - self.discharged))
            sys.exit(2)
        sys.exit(0)
