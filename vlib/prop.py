"""Check framework: obligations, native validation/replay, known findings, evidence."""
import json
import os
import subprocess
import sys
import time
import hashlib

import z3

VERIF = os.path.dirname(os.path.dirname(os.path.abspath(__file__)))
sys.path.insert(0, VERIF)


class Native:
    """line-oriented conversation with a native runner binary"""

    def __init__(self, binary):
        self.binary = binary
        self.proc = None
        self.count = 0

    def start(self):
        self.proc = subprocess.Popen([self.binary], stdin=subprocess.PIPE, stdout=subprocess.PIPE, text=True, bufsize=1)

    def ask(self, request):
        if self.proc is None or self.proc.poll() is not None:
            self.start()
        self.proc.stdin.write(request.replace("\n", " ") + "\n")
        self.proc.stdin.flush()
        line = self.proc.stdout.readline()
        self.count += 1
        if not line:
            # the runner died (abort): report and restart lazily
            rc = self.proc.wait()
            self.proc = None
            return {"abort": rc}
        return json.loads(line)

    def close(self):
        if self.proc is not None:
            try:
                self.proc.stdin.close()
                self.proc.wait(timeout=5)
            except Exception:
                self.proc.kill()
            self.proc = None


def sx_str(s):
    out = ['"']
    for ch in s:
        if ch == '"':
            out.append('\\"')
        elif ch == "\\":
            out.append("\\\\")
        elif ch == "\n":
            out.append("\\n")
        elif ch == "\t":
            out.append("\\t")
        elif ord(ch) < 0x20 or ord(ch) == 0x7f:
            out.append("\\u{%x}" % ord(ch))
        else:
            out.append(ch)
    out.append('"')
    return "".join(out)


class Check:
    def __init__(self, pid, argv=None):
        self.pid = pid
        argv = argv if argv is not None else sys.argv[1:]
        self.tier = os.environ.get("VERIF_TIER", "quick")
        self.replay = None
        i = 0
        while i < len(argv):
            if argv[i] == "--tier":
                self.tier = argv[i + 1]
                i += 1
            elif argv[i] == "--replay":
                self.replay = argv[i + 1]
                i += 1
            i += 1
        if self.tier not in ("quick", "thorough"):
            self.tier = "quick"
        self.seed = int(os.environ.get("VERIF_SEED", "0") or 0)
        self.t0 = time.time()
        self.leaves = 0
        self.branches = 0
        self.obligations = 0
        self.discharged = 0
        self.smt_obligations = 0
        self.native_agree = 0
        self.samples = []
        self.violations = []       # confirmed, not known
        self.known_hits = []
        self.engine_problems = []
        self.functions = set()
        self.models = set()
        self.programs = set()
        self.bounds = {}
        self.outside = []
        self.assumptions = []
        self.solver_queries = 0
        self.solver_time = 0.0
        self.entries = {}
        self.extra = {}
        self.exhaustive = True
        self.must_reach = {}
        self.known = self._load_known()
        self.timeout_ms = 10000 if self.tier == "quick" else 60000
        self._s = None
        self._sq = 0

    def _solver(self):
        if self._s is None or self._sq > 2000:
            self._s = z3.Solver()
            self._s.set("timeout", self.timeout_ms)
            self._sq = 0
        self._sq += 1
        return self._s

    # -------------------------------------------------------------- known findings
    def _load_known(self):
        p = os.path.join(VERIF, "known_findings.json")
        if not os.path.exists(p):
            return []
        with open(p) as f:
            d = json.load(f)
        return [k for k in d.get("findings", []) if k.get("property") == self.pid and k.get("status", "open") == "open"]

    # -------------------------------------------------------------- accounting
    def absorb(self, I, leaves, entry):
        """account for one exploration"""
        self.leaves += len(leaves)
        self.branches += sum(l.branches for l in leaves)
        self.functions |= I.functions_run
        self.models |= I.models_used
        self.solver_queries += I.stats["solver_queries"]
        self.solver_time += I.stats["solver_time"]
        I.stats["solver_queries"] = 0
        I.stats["solver_time"] = 0.0
        e = self.entries.setdefault(entry, {"leaves": 0, "returned": 0, "panicked": 0, "other": 0})
        for l in leaves:
            e["leaves"] += 1
            if l.status in ("returned", "panicked"):
                e[l.status] += 1
            else:
                e["other"] += 1
                self.engine_problems.append("%s: %s %s" % (entry, l.status, l.info))
            if l.inconclusive:
                self.engine_problems.append("%s: solver returned unknown on a branch" % entry)

    def check_exhaustive(self, I, leaves, entry):
        """the leaves' path conditions cover every input within the decision domains (solver-checked)"""
        dom = []
        for k, ch in I.domains.items():
            v = z3.Int(k)
            dom.append(z3.Or([v == c for c in ch]))
        from mirsym.lazy import decision_constraints
        pcs = []
        for l in leaves:
            cs = list(l.pc) + decision_constraints(l)
            pcs.append(z3.And(cs) if cs else z3.BoolVal(True))
        self.obligations += 1
        self.smt_obligations += 1
        s = z3.Solver()
        s.set("timeout", self.timeout_ms)
        t0 = time.time()
        for d in dom:
            s.add(d)
        s.add(z3.Not(z3.Or(pcs)) if pcs else z3.BoolVal(True))
        r = s.check()
        self.solver_queries += 1
        self.solver_time += time.time() - t0
        if r == z3.unsat:
            self.discharged += 1
            return True
        self.exhaustive = False
        self.engine_problems.append("%s: leaves are not exhaustive (%s)" % (entry, r))
        return False

    def reach(self, what):
        self.must_reach[what] = self.must_reach.get(what, 0) + 1

    def require_reached(self, names):
        for n in names:
            if not self.must_reach.get(n):
                self.engine_problems.append("vacuity: no leaf reached '%s'" % n)

    def sample(self, s):
        if len(self.samples) < 12:
            self.samples.append(s)

    # -------------------------------------------------------------- obligations
    def ok(self, n=1):
        self.obligations += n
        self.discharged += n

    def smt_valid(self, pc, claim):
        """True iff pc => claim for all values (negation unsat)"""
        self.obligations += 1
        self.smt_obligations += 1
        if claim is True:
            self.discharged += 1
            return True, None
        t0 = time.time()
        s = self._solver()
        s.push()
        try:
            for c in pc:
                s.add(c)
            s.add(z3.Not(claim) if claim is not False else z3.BoolVal(True))
            r = s.check()
            model = s.model() if r == z3.sat else None
        finally:
            s.pop()
        self.solver_queries += 1
        self.solver_time += time.time() - t0
        if r == z3.unsat:
            self.discharged += 1
            return True, None
        if r == z3.unknown:
            self.engine_problems.append("solver unknown on an obligation")
            return None, None
        return False, model

    def model_of(self, pc, extra=None):
        s = self._solver()
        s.push()
        try:
            for c in pc:
                s.add(c)
            if extra is not None:
                s.add(extra)
            r = s.check()
            self.solver_queries += 1
            if r == z3.sat:
                return s.model()
            return None
        finally:
            s.pop()

    # -------------------------------------------------------------- violations
    def report(self, key, what, replay):
        """a natively confirmed violation.  key = role of the failing input (for known findings)"""
        for k in self.known:
            if k.get("key") == key:
                if key not in [h[0] for h in self.known_hits]:
                    self.known_hits.append((key, k.get("what", what)))
                return
        if key in [v[0] for v in self.violations]:
            return
        os.makedirs(os.path.join(VERIF, "replays"), exist_ok=True)
        dig = hashlib.sha256(json.dumps(replay, sort_keys=True, default=str).encode()).hexdigest()[:12]
        path = os.path.join(VERIF, "replays", "%s-%s.json" % (self.pid, dig))
        with open(path, "w") as f:
            json.dump(replay, f, indent=1, default=str)
        self.violations.append((key, what, path))

    def engine(self, msg):
        self.engine_problems.append(msg)

    # -------------------------------------------------------------- finish
    def finish(self):
        wall = time.time() - self.t0
        ev = {
            "property_id": self.pid,
            "tier": self.tier,
            "seed": self.seed,
            "level": "model_checking",
            "coverage": {
                "states": self.leaves,
                "transitions": self.branches,
                "traces_validated_against_impl": self.native_agree,
                "samples": self.samples or ["(none)"],
                "obligations": self.obligations,
                "discharged": self.discharged,
                "smt_obligations": self.smt_obligations,
                "solver_queries": self.solver_queries,
                "solver_time_s": round(self.solver_time, 3),
                "programs": len(self.programs),
                "program_list": sorted(self.programs),
                "entries": self.entries,
                "functions_encoded": sorted(f for f in self.functions if f.startswith(("darling", "<darling", "h", "<h")) or "darling" in f)[:400],
                "functions_encoded_total": len(self.functions),
                "models_used": sorted(self.models)[:300],
                "trusted_base": sorted(set(m.split("::<")[0] for m in self.models))[:200],
                "bounds": self.bounds,
                "outside_bounds": self.outside,
                "exhaustive": bool(self.exhaustive and not self.engine_problems),
                "must_reach": self.must_reach,
                "known_findings_hit": [k for k, _ in self.known_hits],
                "engine_problems": self.engine_problems[:20],
            },
            "assumptions": self.assumptions,
            "wall_s": round(wall, 2),
            "violations": len(self.violations),
        }
        ev["coverage"].update(self.extra)
        if ev["coverage"]["states"] < 1:
            ev["coverage"]["states"] = 1
        if ev["coverage"]["transitions"] < 1:
            ev["coverage"]["transitions"] = 1
        os.makedirs(os.path.join(VERIF, "evidence"), exist_ok=True)
        with open(os.path.join(VERIF, "evidence", "%s.json" % self.pid), "w") as f:
            json.dump(ev, f, indent=1, default=str)
        print("%s tier=%s leaves=%d branches=%d obligations=%d/%d (smt %d) native=%d solver=%d queries %.2fs wall=%.1fs"
              % (self.pid, self.tier, self.leaves, self.branches, self.discharged, self.obligations, self.smt_obligations,
                 self.native_agree, self.solver_queries, self.solver_time, wall))
        for k, w in self.known_hits:
            print("KNOWN-FINDING: property=%s %s" % (self.pid, w))
        if self.violations:
            for key, what, path in self.violations:
                print("VIOLATION property=%s replay=%s  (%s: %s)" % (self.pid, path, key, what))
            sys.exit(1)
        if self.engine_problems:
            for m in self.engine_problems[:15]:
                print("ENGINE: %s" % m)
            print("INCONCLUSIVE property=%s (engine problem; not a verdict on the code)" % self.pid)
            sys.exit(2)
        if self.obligations != self.discharged:
            print("INCONCLUSIVE property=%s: %d obligations not discharged" % (self.pid, self.obligations - self.discharged))
            sys.exit(2)
        sys.exit(0)
