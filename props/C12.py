"""C12 - wrapper types are transparent over the wrapped conversion (relational check).

For every wrapper W (and two-level compositions) and opaque inner targets T (OpqH: every hook overridden,
from_meta = darling's default dispatcher; OpqM: from_meta overridden; ..N: with a value for the absent case)
the MIR of <W as FromMeta>::from_meta / from_none is executed on one lazily initialised symbolic item and each leaf
is compared with lift_W(outcome of <T as FromMeta>::from_meta on the same symbolic item)."""
import os
import sys
import z3

sys.path.insert(0, os.path.dirname(os.path.dirname(os.path.abspath(__file__))))
from vlib import build
from vlib.prop import Check, Native, sx_str
from vlib.view import view, L
from mirsym import Program, Interp, models, Lazy, Opaque, syn_models, harness_models  # noqa: F401
from props.recv_common import actual_errors
from props.C15 import Pol, render_item
import props.C15 as C15
from harness.gen_conv import WRAPPERS, TARGETS

OPTS = ("no_dym",)


def layers_of(wname):
    """outermost-first list of wrapper layers"""
    return {"opt": ["opt"], "boxx": ["ptr"], "rc": ["ptr"], "arc": ["ptr"], "refcell": ["ptr"], "spanned": ["spanned"], "worig": ["worig"],
            "over": ["over"], "dres": ["dres"], "mres": ["mres"], "opt_box": ["opt", "ptr"], "box_opt": ["ptr", "opt"],
            "spanned_opt": ["spanned", "opt"], "opt_spanned": ["opt", "spanned"], "dres_opt": ["dres", "opt"], "over_opt": ["over", "opt"],
            "rc_refcell": ["ptr", "ptr"], "over_box": ["over", "ptr"]}[wname]


def consistent(a, b):
    for k, v in a.items():
        if k.endswith("#not"):
            d = b.get(k[:-4] + "#d")
            if d is not None and d in v:
                return False
            continue
        if k in b and b[k] != v:
            return False
        nb = b.get(k[:-2] + "#not") if k.endswith("#d") else None
        if nb is not None and v in nb:
            return False
    return True


def span_by_form(st):
    form = st.decisions.get("item*#d")
    if form == 0:
        return "item*.path"
    if form == 1:
        return "item*.List.0.tokens"
    if form == 2:
        return "item*.NameValue.0.value"
    return None


def expected(layers, st, base):
    """property-level outcome of W::from_meta(item) given T's outcome `base` = ('ok', view) | ('err', [leaves])"""
    if not layers:
        return base
    lay, rest = layers[0], layers[1:]
    inner = expected(rest, st, base)
    if lay == "opt":
        return ("ok", ("some", inner[1])) if inner[0] == "ok" else inner
    if lay == "ptr":
        return ("ok", ("ptr", inner[1])) if inner[0] == "ok" else inner
    if lay == "spanned":
        if inner[0] == "ok":
            return ("ok", ("spanned", inner[1], span_by_form(st)))
        return ("err", inner[1], "span-inside-item")
    if lay == "worig":
        return ("ok", ("worig", inner[1])) if inner[0] == "ok" else inner
    if lay == "over":
        if st.decisions.get("item*#d") == 0:
            return ("ok", ("inherit",))
        return ("ok", ("explicit", inner[1])) if inner[0] == "ok" else inner
    if lay == "dres":
        return ("ok", ("dres", inner))
    if lay == "mres":
        return ("ok", ("mres", inner))
    raise ValueError(lay)


def rep(x):
    if isinstance(x, dict):
        return "{" + ",".join("%s:%s" % (k, rep(v)) for k, v in sorted(x.items())) + "}"
    if isinstance(x, (list, tuple)):
        return "[" + ",".join(rep(v) for v in x) + "]"
    if z3.is_expr(x):
        return z3.simplify(x).sexpr()
    return repr(x)


def unptr(v):
    """peel smart-pointer representation layers (Rc/Arc/RefCell/Box internals) down to the payload"""
    while isinstance(v, dict) and v.get("_", "").split("<")[0] in ("std::rc::Rc", "std::sync::Arc", "std::cell::RefCell", "std::cell::UnsafeCell",
                                                                     "std::ptr::NonNull", "std::rc::RcInner", "std::sync::ArcInner", "alloc::rc::RcInner",
                                                                     "alloc::sync::ArcInner", "std::boxed::Box"):
        n = v["_"].split("<")[0]
        if "value" in v and n not in ("std::rc::Rc", "std::sync::Arc"):
            v = v["value"]
        elif "ptr" in v:
            v = v["ptr"]
        elif "pointer" in v:
            v = v["pointer"]
        elif "data" in v:
            v = v["data"]
        elif "0" in v:
            v = v["0"]
        else:
            break
    return v


def match_value(pat, got, st, item_view):
    """does the viewed value `got` have the shape/value of pattern `pat`? returns (ok, why)"""
    tag = pat[0] if isinstance(pat, tuple) and pat and isinstance(pat[0], str) else None
    if tag == "some":
        if not (isinstance(got, dict) and got.get("_v") == "Some"):
            return False, "expected Some, got %s" % rep(got)[:200]
        return match_value(pat[1], got["0"], st, item_view)
    if tag == "ptr":
        return match_value(pat[1], unptr(got), st, item_view)
    if tag == "spanned":
        if not (isinstance(got, dict) and "span" in got and "value" in got):
            return False, "expected SpannedValue, got %s" % rep(got)[:200]
        sp = got["span"]
        want = pat[2]
        if want is not None:
            o = sp.data if isinstance(sp, Opaque) else None
            if o is None or o[0] not in ("node", "in") or o[1] != want:
                return False, "SpannedValue span is %r, expected the span of %s" % (o, want)
        return match_value(pat[1], got["value"], st, item_view)
    if tag == "worig":
        if not (isinstance(got, dict) and "parsed" in got and "original" in got):
            return False, "expected WithOriginal, got %s" % rep(got)[:200]
        if rep(got["original"]) != rep(item_view):
            return False, "original is not an identical copy of the item: %s vs %s" % (rep(got["original"])[:150], rep(item_view)[:150])
        return match_value(pat[1], got["parsed"], st, item_view)
    if tag == "inherit":
        return (isinstance(got, dict) and got.get("_v") == "Inherit"), "expected Inherit, got %s" % rep(got)[:200]
    if tag == "explicit":
        if not (isinstance(got, dict) and got.get("_v") == "Explicit"):
            return False, "expected Explicit, got %s" % rep(got)[:200]
        return match_value(pat[1], got["0"], st, item_view)
    if tag == "dres":
        inner = pat[1]
        if inner[0] == "ok":
            if not (isinstance(got, dict) and got.get("_v") == "Ok"):
                return False, "inner Result should be Ok"
            return match_value(inner[1], got["0"], st, item_view)
        if not (isinstance(got, dict) and got.get("_v") == "Err"):
            return False, "inner Result should hold T's error"
        return errors_equal(inner[1], actual_errors(got["0"], st), len(inner) > 2)
    if tag == "mres":
        inner = pat[1]
        if inner[0] == "ok":
            if not (isinstance(got, dict) and got.get("_v") == "Ok"):
                return False, "Result<T, Meta> should be Ok(T's value)"
            return match_value(inner[1], got["0"], st, item_view)
        if not (isinstance(got, dict) and got.get("_v") == "Err"):
            return False, "Result<T, Meta> should be Err(original item)"
        return (rep(got["0"]) == rep(item_view)), "Err payload is not the original item"
    # base value: T's own view
    return (rep(unptr(got)) == rep(pat)), "value %s differs from T's %s" % (rep(got)[:200], rep(pat)[:200])


def errors_equal(exp, act, spans_may_be_added=False):
    if len(exp) != len(act):
        return False, "error count %d vs T's %d" % (len(act), len(exp))
    for e, a in zip(exp, act):
        if (e[0], e[1], tuple(e[2])) != (a[0], a[1], tuple(a[2])):
            return False, "error %r differs from T's %r" % (a, e)
        if e[3] == "own?":
            # T's error was never inspected on T's own run: W may keep its span or (if it has none) add one inside the item
            if not (a[3] == "own?" or a[3] is None or tuple(a[3]) == ("in", e[1] + ".span.Some.0") or (a[3][0] in ("node", "in") and a[3][1].startswith("item*"))):
                return False, "span %r is neither the error's own nor inside the item" % (a[3],)
        elif e[3] != a[3]:
            if not (e[3] is None and a[3] is not None and spans_may_be_added and a[3][0] in ("node", "in") and a[3][1].startswith("item*")):
                return False, "span %r differs from T's %r" % (a[3], e[3])
    return True, ""


def outcome_of(I, e, l):
    got = view(I, l, l.ret, e.local_tys[0])
    if isinstance(got, dict) and got.get("_v") == "Ok":
        return ("ok", got["0"])
    return ("err", actual_errors(got["0"], l))


def pair_job(ck, prog, natbin, wname, tname, quick):
    C15.PROG = prog
    native = Native(natbin)
    pol = Pol()
    layers = layers_of(wname)
    Iw = Interp(prog, models.all_models(OPTS), pol, timeout_ms=ck.timeout_ms)
    ew = prog.entry("entry_w_%s_%s_meta" % (wname, tname))
    lw = Iw.explore(ew, [Lazy("item", ew.local_tys[1])])
    ck.absorb(Iw, lw, "entry_w_%s_%s_meta" % (wname, tname))
    ck.check_exhaustive(Iw, lw, "w_%s_%s" % (wname, tname))
    It = Interp(prog, models.all_models(OPTS), pol, timeout_ms=ck.timeout_ms)
    et = prog.entry("entry_t_%s_meta" % tname)
    lt = It.explore(et, [Lazy("item", et.local_tys[1])])
    ck.absorb(It, lt, "entry_t_%s_meta" % tname)
    touts = []
    for b in lt:
        if b.status != "returned":
            ck.engine("T run: leaf %s %s" % (b.status, b.info or b.panics))
            continue
        touts.append((b, outcome_of(It, et, b)))
    nat_n = 0
    for a in lw:
        if a.status != "returned":
            ck.obligations += 1
            ck.engine("w_%s_%s: leaf %s %s" % (wname, tname, a.status, a.info or a.panics))
            continue
        gotw = view(Iw, a, a.ret, ew.local_tys[0])
        item_view = view(Iw, a, Iw.read(a, Lazy_ptr("item*")), prog.find_ty("syn::Meta").id) if False else None
        partners = [(b, o) for b, o in touts if consistent(a.decisions, b.decisions)]
        if not partners:
            ck.engine("w_%s_%s: no consistent leaf of T's run for %r" % (wname, tname, a.decisions))
            continue
        for b, base in partners:
            # the merged decision set of the pair
            merged = dict(b.decisions)
            merged.update(a.decisions)

            class M:
                decisions = merged
            exp = expected(layers, M, base)
            # the item as W's run sees it (for identity comparisons)
            iv = view(Iw, a, a.heap.get(("L", "item*"), Lazy("item*", prog.find_ty("syn::Meta").id)), prog.find_ty("syn::Meta").id)
            good, why = True, ""
            if exp[0] == "ok":
                if not (isinstance(gotw, dict) and gotw.get("_v") == "Ok"):
                    good, why = False, "W rejects an item T accepts (%s)" % rep(gotw)[:300]
                else:
                    good, why = match_value(exp[1], gotw["0"], a, iv)
            else:
                if not (isinstance(gotw, dict) and gotw.get("_v") == "Err"):
                    good, why = False, "W accepts an item T rejects"
                else:
                    good, why = errors_equal(exp[1], actual_errors(gotw["0"], a), len(exp) > 2)
            ck.reach(exp[0])
            form = merged.get("item*#d")
            ck.reach("form:%s" % form)
            if good:
                ck.ok()
                continue
            ck.obligations += 1
            # replay natively: the runner prints W's and T's outcome for the same text

            class MS:
                decisions = merged
            txt = render_item(MS, None, "item*", False)
            if txt is None:
                ck.engine("w_%s_%s: %s (no textual witness)" % (wname, tname, why))
                continue
            req = "(wrap_meta %s %s %s)" % (wname, tname, sx_str(txt))
            nat = native.ask(req)
            key = "%s<%s>:%s:form%s" % (wname, "M" if tname.startswith("OpqM") else "H", "accepts" if exp[0] == "ok" else "rejects", form)
            if native_transparent(wname, nat, txt):
                ck.engine("w_%s_%s: %s, but natively W and T agree on %s" % (wname, tname, why, txt))
            else:
                ck.report(key, "%s is not transparent over %s: %s" % (wname, tname, why),
                          {"property": "C12", "crate": "hconv", "request": req, "observed": nat, "why": why})
    # sample of native agreement on textual witnesses of ok leaves
    for a in lw[:: max(1, len(lw) // 6)]:
        class MS:
            decisions = a.decisions
        txt = render_item(MS, None, "item*", False)
        if txt is None:
            continue
        nat = native.ask("(wrap_meta %s %s %s)" % (wname, tname, sx_str(txt)))
        if native_transparent(wname, nat, txt):
            ck.native_agree += 1
    native.close()


def Lazy_ptr(name):
    return None


def native_transparent(wname, nat, txt):
    """relation between the natively rendered W and T outcomes for the same item"""
    r = nat.get("result") if isinstance(nat, dict) else None
    if not isinstance(r, dict) or "w" not in r:
        return False
    w, t = r["w"], r["t"]
    layers = layers_of(wname)

    def lift(lay, rest, t):
        inner = lift(rest[0], rest[1:], t) if rest else t
        if lay == "opt":
            return {"ok": {"some": inner["ok"]}} if "ok" in inner else inner
        if lay == "ptr":
            return inner
        if lay == "spanned":
            return {"ok": {"spanned": inner["ok"]}} if "ok" in inner else inner
        if lay == "worig":
            return {"ok": {"parsed": inner["ok"]}} if "ok" in inner else inner
        if lay == "over":
            if "=" not in txt and "(" not in txt:
                return {"ok": "inherit"}
            return {"ok": {"explicit": inner["ok"]}} if "ok" in inner else inner
        if lay == "dres":
            return {"ok": inner}
        if lay == "mres":
            return {"ok": {"ok": inner["ok"]}} if "ok" in inner else {"ok": {"original": None}}
        return inner
    exp = lift(layers[0], layers[1:], t)

    def eq(e, g):
        if isinstance(e, dict) and isinstance(g, dict):
            for k, v in e.items():
                if k == "original":
                    if "original" not in g:
                        return False
                    continue
                if k == "err":
                    if "err" not in g or len(g["err"]) != len(v) or any(x["msg"] != y["msg"] for x, y in zip(v, g["err"])):
                        return False
                    continue
                if k not in g or not eq(v, g[k]):
                    return False
            return True
        return e == g
    return eq(exp, w)


def none_job(ck, prog, natbin, quick):
    native = Native(natbin)
    for tname in TARGETS:
        tnone = ("some", 9500) if tname.endswith("N") else None
        for wname, _ in WRAPPERS:
            layers = layers_of(wname)

            def none_of(ls):
                """None = stays required; ('some', 'none') = Some(..None..); ('some', 'T') = Some(..T's value for absent..)"""
                if not ls:
                    return ("some", "T") if tnone is not None else None
                lay, rest = ls[0], ls[1:]
                if lay == "opt":
                    return ("some", "none")          # Option: absent item -> Some(None)
                inner = none_of(rest)
                if lay in ("ptr", "dres"):
                    return inner                     # smart pointers and darling's Result: whatever the inner type yields
                return None                          # SpannedValue / WithOriginal / Override / Result<T, Meta>: stay required
            exp = none_of(layers)
            I = Interp(prog, models.all_models(OPTS), Pol(), timeout_ms=ck.timeout_ms)
            e = prog.entry("entry_w_%s_%s_none" % (wname, tname))
            leaves = I.explore(e, [])
            ck.absorb(I, leaves, "entry_w_%s_%s_none" % (wname, tname))
            for l in leaves:
                got = view(I, l, l.ret, e.local_tys[0]) if l.status == "returned" else None
                is_some = isinstance(got, dict) and got.get("_v") == "Some"
                ok = (exp is None and isinstance(got, dict) and got.get("_v") == "None") or (exp is not None and is_some)
                if ok and exp is not None and exp[1] == "none":
                    ok = "9500" not in rep(got["0"]) and "_v:'None'" in rep(got["0"])
                if ok and exp is not None and exp[1] == "T":
                    ok = "9500" in rep(got["0"])
                nat = native.ask("(wrap_none %s %s)" % (wname, tname))
                ck.reach("none:%s" % ("some" if exp is not None else "none"))
                if ok:
                    ck.ok()
                    r = nat.get("result", {})
                    if (r.get("w") is None) == (exp is None):
                        ck.native_agree += 1
                else:
                    ck.obligations += 1
                    r = nat.get("result", {})
                    if (r.get("w") is None) == (exp is None):
                        ck.engine("none %s<%s>: symbolic %s but native agrees with the table" % (wname, tname, rep(got)[:100]))
                    else:
                        ck.report("none:%s" % wname, "value for the absent item differs from the table",
                                  {"property": "C12", "crate": "hconv", "request": "(wrap_none %s %s)" % (wname, tname), "observed": nat, "expected_some": exp is not None})
    native.close()


def flag_unit_job(ck, prog, natbin):
    """`Flag` and `()`, the two word-only targets, run on a symbolic item for C07: never a panic (Flag builds its error by running `()`'s
    conversion and unwrapping the Err, which relies on `()` rejecting every non-word form)"""
    from props.recv_common import replay_panic
    native = Native(natbin)
    for ename, rq in (("entry_flag_meta", "flag_meta"), ("entry_unit_meta", "unit_meta")):
        I = Interp(prog, models.all_models(OPTS), Pol(), timeout_ms=ck.timeout_ms)
        e = prog.entry(ename)
        leaves = I.explore(e, [Lazy("item", e.local_tys[1])])
        ck.absorb(I, leaves, ename)
        ck.check_exhaustive(I, leaves, ename)
        for l in leaves:
            txt = render_item(l, None, "item*", False)
            req = None if txt is None else "(%s %s)" % (rq, sx_str(txt))
            if l.status == "panicked":
                replay_panic(ck, native, ename, l, req, {"crate": "hconv"})
                continue
            if l.status != "returned":
                ck.obligations += 1
                ck.engine("%s: leaf %s %s" % (ename, l.status, str(l.info or l.panics)[:200]))
                continue
            # which forms these targets accept is stated by no property (C12 speaks about Flag only for the absent item): every
            # returned leaf counts, whatever it returns
            ck.reach("wordonly:returned")
            ck.ok()
    native.close()


def prepare(ck):
    """configure `ck` and return the list of jobs of this property's exploration"""
    ck.crate = "hconv"
    quick = ck.tier == "quick"
    targets = ["OpqH", "OpqM"] if quick else TARGETS
    wr = [w for w, _ in WRAPPERS]
    ck.bounds = {"wrappers": wr, "inner_targets": targets + ["(+ ..N variants for the absent case)"], "item": "one lazily initialised symbolic Meta",
                 "invisible_group_nesting": "<= 2"}
    ck.outside = ["inner targets other than the opaque stand-ins (built-in targets follow from C11/C13/C14 + parametricity of the wrapper impls)",
                  "three-level compositions", "FromField/FromDeriveInput/... impls of SpannedValue and WithOriginal (C16)"]
    ck.assumptions = ["T's hooks are uninterpreted outcomes; the relation is checked leaf-pair by leaf-pair on shared symbolic atoms"]
    prog = Program(build.dump_mir("hconv", opts=OPTS))
    natbin = build.build_native("hconv")
    jobs = []
    for t in targets:
        for w in wr:
            ck.programs.add("%s<%s>" % (w, t))
            jobs.append(lambda sub, w=w, t=t: pair_job(sub, prog, natbin, w, t, quick))
    jobs.append(lambda sub: none_job(sub, prog, natbin, quick))
    ck.programs.add("Flag / () (word-only targets)")
    jobs.append(lambda sub: flag_unit_job(sub, prog, natbin))
    return jobs


def main():
    ck = Check("C12")
    ck.run_jobs(prepare(ck))
    ck.require_reached(["ok", "err", "form:0", "form:1", "form:2", "none:some", "none:none"])
    ck.finish()


if __name__ == "__main__":
    main()
