"""C14 - keyed collections: all distinct keys kept, every repeat and bad entry reported.

The real `map!` implementations (HashMap / BTreeMap x String / Ident / Path keys) are executed on symbolic item
lists; maps and sets are association lists whose key comparison runs the key type's real equality, so every
repetition pattern of the keys is a path; each leaf is compared with a reference model."""
import os
import sys
import z3

sys.path.insert(0, os.path.dirname(os.path.dirname(os.path.abspath(__file__))))
from vlib import build
from vlib.prop import Check, Native, sx_str
from vlib.view import view, L
from mirsym import Program, Interp, models, Lazy, Opaque, StringVal, syn_models, harness_models  # noqa: F401
from props.recv_common import actual_errors, list_items, model_str, ident_validity, replay_panic

OPTS = ("no_dym",)


class Pol(syn_models.SynPolicy):
    def __init__(self, K, segs):
        super().__init__()
        self.K = K
        self.segs = segs

    def variants(self, I, st, lz, t):
        if t.adt and t.adt["name"].endswith("error::kind::ErrorKind"):
            return list(range(10))
        if t.adt and t.adt["name"] == "syn::PathArguments":
            return [0]     # keys without generic arguments (stated bound)
        return syn_models.SynPolicy.variants(self, I, st, lz, t)

    def len_bounds(self, I, st, name, t):
        if name == "items*":
            return (0, self.K)
        if name.endswith(".segments"):
            return (1, self.segs)
        return (0, 1)


def key_desc(st, meta, keykind):
    """(term describing the converted key, is the key convertible) for the item's path"""
    n = st.decisions.get(meta + ".path.segments#len", 1)
    segs = [z3.String("%s.path.segments[%d].ident.sym" % (meta, j)) for j in range(n)]
    lead = st.decisions.get(meta + ".path.leading_colon#d")
    return segs, lead


def witness_parts(l, items, mdl, uniq):
    parts = []
    for i, it in enumerate(items):
        if it.kind == "lit":
            parts.append('"lit%d"' % i)
            continue
        n = l.decisions.get(it.meta + ".path.segments#len", 1)
        names = []
        for j in range(n):
            uniq[0] += 1
            names.append(model_str(mdl, z3.String("%s.path.segments[%d].ident.sym" % (it.meta, j)), "k%d" % uniq[0]))
        nm = ("::" if l.decisions.get(it.meta + ".path.leading_colon#d") == 1 else "") + "::".join(names)
        cd = l.decisions.get("conv(%s)#d" % it.meta)
        parts.append(nm + (' = "ERR"' if cd == 1 else " = %d" % (10 + i)))
    return parts


def map_job(ck, prog, natbin, kind, K, segs, quick):
    native = Native(natbin)
    keykind = kind.split("_")[1]
    I = Interp(prog, models.all_models(OPTS), Pol(K, segs), timeout_ms=ck.timeout_ms)
    e = prog.entry("entry_%s" % kind)
    leaves = I.explore(e, [Lazy("items", e.local_tys[1])])
    ck.absorb(I, leaves, "entry_%s" % kind)
    ck.check_exhaustive(I, leaves, kind)
    uniq = [0]
    cnt = 0
    for l in leaves:
        if l.status == "panicked":
            pm = ck.model_of(list(l.pc) + ident_validity(l)) or ck.model_of(l.pc)
            pit = list_items(l, "items*")
            replay_panic(ck, native, kind, l, None if pm is None else "(map %s %s)" % (kind, sx_str(", ".join(witness_parts(l, pit, pm, uniq)))), {"crate": "hconv"})
            continue
        if l.status != "returned":
            ck.obligations += 1
            ck.engine("%s: leaf %s %s" % (kind, l.status, l.info or l.panics))
            continue
        items = list_items(l, "items*")
        metas = [it for it in items if it.kind == "meta"]
        # identifiers never contain ':' - a leaf that needs one (e.g. the single segment `x` equal to `a::b`) stands for no real input
        vmdl = ck.model_of(list(l.pc) + ident_validity(l))
        if vmdl is None:
            ck.reach("infeasible-under-ident-validity")
            continue
        # equality pattern of the keys on this leaf (solver-decided; every pair must be decided)
        keyterm = {}
        badkey = {}
        for it in metas:
            segs_, lead = key_desc(l, it.meta, keykind)
            if keykind == "string":
                t = segs_[0]
                for sgm in segs_[1:]:
                    t = z3.Concat(t, z3.StringVal("::"), sgm)
                keyterm[it.meta] = [t]
                badkey[it.meta] = False
            elif keykind == "ident":
                keyterm[it.meta] = [segs_[0]]
                # an identifier key needs a single segment, no leading colon (arguments are fixed to none)
                badkey[it.meta] = (len(segs_) != 1) or (lead == 1)
                if len(segs_) == 1 and lead is None:
                    badkey[it.meta] = None
            else:
                keyterm[it.meta] = [z3.StringVal("::" if lead == 1 else "")] + segs_
                badkey[it.meta] = False
        open_pairs = []

        def cond_of(a, b):
            ta, tb = keyterm[a], keyterm[b]
            if len(ta) != len(tb):
                return None
            return z3.And([x == y for x, y in zip(ta, tb)])

        def same_solver(a, b):
            cond = cond_of(a, b)
            if cond is None:
                return False
            if ck.implies(l.pc, cond):
                return True
            if ck.implies(l.pc, z3.Not(cond)):
                return False
            open_pairs.append((a, b))
            return None

        def expect(same, conv_default=None):
            undecided = False
            exp_errors = []
            exp_map = []
            seen = []
            for it in items:
                if it.kind == "lit":
                    exp_errors.append(("format", "expression", ()))
                    continue
                cd = l.decisions.get("conv(%s)#d" % it.meta, conv_default)
                if badkey[it.meta] is None:
                    return None, None, True
                if badkey[it.meta]:
                    exp_errors.append(("custom", "Key must be an identifier", ()))
                    if cd == 1:
                        exp_errors.append(("conv", "conv(%s).Err.0" % it.meta, "under-key"))
                    elif cd is None:
                        undecided = True
                    continue
                dup = False
                for s_ in seen:
                    r = same(s_, it.meta)
                    if r is None:
                        undecided = True
                    dup = dup or bool(r)
                if dup:
                    exp_errors.append(("duplicate", it.meta, ()))
                if cd is None:
                    return None, None, True
                if cd == 1:
                    exp_errors.append(("conv", "conv(%s).Err.0" % it.meta, "under-key"))
                elif not dup:
                    exp_map.append((it.meta, "conv(%s).Ok.0" % it.meta))
                seen.append(it.meta)
            return exp_errors, exp_map, undecided

        exp_errors, exp_map, undecided = expect(same_solver)
        if undecided and open_pairs:
            # the model needs a key comparison the implementation never made: complete it both ways and replay natively
            ck.obligations += 1
            reported = False
            for choice in (True, False):
                extra = []
                for a, b in open_pairs:
                    c = cond_of(a, b)
                    extra.append(c if choice else z3.Not(c))
                m2 = ck.model_of(list(l.pc) + ident_validity(l) + extra)
                if m2 is None:
                    continue
                ee, em, und2 = expect(lambda a, b, choice=choice: (same_solver(a, b) if (a, b) not in open_pairs else choice), conv_default=0)
                if ee is None:
                    continue
                parts2 = witness_parts(l, items, m2, uniq)
                req2 = "(map %s %s)" % (kind, sx_str(", ".join(parts2)))
                nat = native.ask(req2)
                r = nat.get("result", {}) if isinstance(nat, dict) else {}
                agrees = (not ee and "ok" in r and len(r["ok"]) == len(em)) or (ee and "err" in r and len(r["err"]) == len(ee))
                if not agrees:
                    ck.report("%s:ignored-comparison" % kind, "a key comparison that decides the outcome is never made; model expects %r" % (ee,),
                              {"property": "C14", "crate": "hconv", "request": req2, "observed": nat, "expected_errors": ee, "expected_entries": len(em)})
                    reported = True
                    break
            if reported:
                continue
        if undecided:
            ck.engine("%s: leaf leaves a key comparison or conversion outcome open (%r)" % (kind, l.decisions))
            continue
        got = view(I, l, l.ret, e.local_tys[0])
        good, why = True, ""
        if not exp_errors:
            ck.reach("ok")
            if not (isinstance(got, dict) and got.get("_v") == "Ok"):
                good, why = False, "rejected although all keys are distinct and all values convert"
            else:
                m = got["0"]
                pairs = list(m.data) if isinstance(m, Opaque) else None
                if pairs is None or len(pairs) != len(exp_map):
                    good, why = False, "map has %s entries, expected %d" % (None if pairs is None else len(pairs), len(exp_map))
                else:
                    for (k, v), (em, ev) in zip(pairs, exp_map):
                        vn = None
                        if isinstance(v, Lazy):
                            vn = v.name
                        elif hasattr(v, "f"):
                            x = v.f[0] if v.f else None
                            vn = x.decl().name()[:-2] if z3.is_expr(x) else None
                        kn = None
                        if isinstance(k, StringVal):
                            kn = z3.simplify(k.s).sexpr() if z3.is_expr(k.s) else repr(k.s)
                            want = z3.simplify(keyterm[em][0]).sexpr()
                        elif isinstance(k, Opaque) and k.kind == "Ident":
                            kn = z3.simplify(k.data[0]).sexpr()
                            want = z3.simplify(keyterm[em][0]).sexpr()
                        else:
                            kn = want = "path"   # Path keys: structural copy of the item's path
                        if vn != ev or kn != want:
                            good, why = False, "entry (%s -> %s) expected (%s -> %s)" % (kn, vn, want, ev)
        else:
            for x in exp_errors:
                ck.reach("err:" + x[0])
            if not (isinstance(got, dict) and got.get("_v") == "Err"):
                good, why = False, "accepted although %r" % (exp_errors,)
            else:
                act = actual_errors(got["0"], l)
                rest = list(act)
                for ek, ew, eloc in exp_errors:
                    hit = None
                    for i, a in enumerate(rest):
                        if ek == "conv":
                            if a[0] == "conv" and a[1] == ew and len(a[2]) >= 1:
                                hit = i
                        elif ek == "duplicate":
                            if a[0] == "duplicate":
                                hit = i
                        elif a[0] == ek and a[1] == ew:
                            hit = i
                        if hit is not None:
                            break
                    if hit is None:
                        good, why = False, "expected error %r missing (actual %r)" % ((ek, ew), act)
                        break
                    rest.pop(hit)
                if good and rest:
                    good, why = False, "unexpected extra errors %r" % (rest,)
        # witness text
        mdl = vmdl
        parts = witness_parts(l, items, mdl, uniq)
        req = "(map %s %s)" % (kind, sx_str(", ".join(parts)))
        cnt += 1
        if good:
            ck.ok()
            if cnt % (2 if quick else 5) == 0:
                nat = native.ask(req)
                r = nat.get("result", {}) if isinstance(nat, dict) else {}
                if isinstance(r, dict) and "parse_error" in r:
                    continue        # the witness text is not valid source (e.g. a reserved word as a key): nothing was compared
                if (not exp_errors and "ok" in r and len(r["ok"]) == len(exp_map)) or (exp_errors and "err" in r and len(r["err"]) == len(exp_errors)):
                    ck.native_agree += 1
                    if len(ck.samples) < 6:
                        ck.sample({"map": kind, "items": ", ".join(parts), "native": r})
                else:
                    ck.report("%s:native" % kind, "native outcome differs from the reference model", {"property": "C14", "crate": "hconv", "request": req, "observed": nat, "expected_errors": exp_errors, "expected_entries": len(exp_map)})
        else:
            ck.obligations += 1
            nat = native.ask(req)
            r = nat.get("result", {}) if isinstance(nat, dict) else {}
            agrees = (not exp_errors and "ok" in r and len(r["ok"]) == len(exp_map)) or (exp_errors and "err" in r and len(r["err"]) == len(exp_errors))
            if agrees:
                ck.engine("%s: %s, but the native run agrees with the model: %s" % (kind, why, req))
            else:
                ck.report("%s:%s" % (kind, "ok" if not exp_errors else "+".join(sorted(set(x[0] for x in exp_errors)))), why,
                          {"property": "C14", "crate": "hconv", "request": req, "observed": nat, "expected_errors": exp_errors, "expected_entries": len(exp_map)})
    native.close()


def prepare(ck):
    """configure `ck` and return the list of jobs of this property's exploration"""
    ck.crate = "hconv"
    quick = ck.tier == "quick"
    K = 3 if quick else 4
    if quick:
        kinds = [("hm_string", 3, 1), ("hm_string", 2, 2), ("bm_string", 3, 1), ("hm_ident", 2, 2), ("bm_ident", 2, 2)]
    else:
        kinds = [("hm_string", K, 1), ("hm_string", 3, 2), ("bm_string", 3, 2), ("hm_ident", 3, 2), ("bm_ident", K, 1)]
    if not quick:
        kinds.append(("hm_path", 3, 2))
    ck.bounds = {"items": "0..%d with one-segment keys, 0..3 with 1..2 segments (ident keys: 0..2 in quick)" % K, "path_segments": "1..2", "maps": [k[0] for k in kinds],
                 "values": "opaque conversion (any Ok/Err)", "keys": "unbounded strings; every repetition pattern is a path"}
    ck.outside = ["more items than the bound (statement: up to 12; the per-item step is uniform in the number of earlier items)",
                  "key paths with generic arguments", "value types other than the opaque conversion (bool/u8/String/Expr/nested map: C11/C13 + parametricity)",
                  "Path-keyed maps in the quick tier"]
    ck.assumptions = ["Hash and Ord of the key types agree with Eq (std contract): maps/sets are modelled as association lists driven by real key equality"]
    prog = Program(build.dump_mir("hconv", opts=OPTS))
    natbin = build.build_native("hconv")
    jobs = []
    for kind, k, segs in kinds:
        ck.programs.add(kind)
        jobs.append(lambda sub, kind=kind, k=k, segs=segs: map_job(sub, prog, natbin, kind, k, segs, quick))
    return jobs


def main():
    ck = Check("C14")
    ck.run_jobs(prepare(ck))
    ck.require_reached(["ok", "err:duplicate", "err:format", "err:conv", "err:custom"])
    ck.finish()


if __name__ == "__main__":
    main()
