"""C07 - parsing is total at run time: every input yields Ok or Err, never a panic.

Re-uses the explorations of the other runtime properties (generated struct / enum / element-level receivers, built-in
conversions, wrappers, maps, hook routing, shape validation) with their fully lazy symbolic inputs and asserts that no
feasible leaf ends in a panic - including an unfinished accumulator, `expect`/`unwrap`/`unreachable!` and index sites, which
are ordinary MIR panic calls for the interpreter.  A panic leaf is replayed natively before it is reported."""
import os
import sys

sys.path.insert(0, os.path.dirname(os.path.dirname(os.path.abspath(__file__))))
from vlib.prop import Check
from props import recv_common, C08, C09, C11, C12, C13, C14, C15, C16, C18


def main():
    ck = Check("C07")
    ck.only_panics = True
    quick = ck.tier == "quick"
    jobs = []
    bounds = {}
    outside = []
    for mod in (C18, C16, C08, C09, C15, C12, C14, C13, C11):
        sub = ck.sub()
        sub.only_panics = True
        js = mod.prepare(sub)
        ck.programs |= sub.programs
        bounds[mod.__name__.split(".")[-1]] = sub.bounds
        jobs.extend(js)
    # the struct receivers (C01/C02 exploration)
    ck.run_jobs(jobs)
    recv_common.run(ck, "C02")
    ck.bounds = {"explorations": "those of C02 (struct receivers), C08, C09, C11, C12, C13, C14, C15, C16, C18 at this tier", "per_property_bounds": bounds}
    ck.outside = ["entry points and receivers outside those explorations", "inputs beyond the per-property bounds (list lengths, nesting depth, digit counts)",
                  "panics inside syn / proc-macro2 themselves (modelled)"]
    ck.assumptions = ["a leaf that the engine cannot execute (unsupported construct) is reported as inconclusive, never as total"]
    ck.require_reached([])
    ck.finish()


if __name__ == "__main__":
    main()
