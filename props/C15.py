"""C15 (routing half) - each item is routed by its form alone to exactly one conversion hook.

128 probe implementers of FromMeta (every subset of the seven hooks overridden) are compiled; their
default-method MIR (from_nested_meta / from_meta / from_value / from_expr ... in core/src/from_meta.rs)
is executed on a lazily initialised symbolic item and every leaf is compared with the documented routing table.
The parser half (NestedMeta::parse / Punctuated::parse_terminated / syn printer round trip) is syn's: not claimed."""
import os
import sys
import z3

sys.path.insert(0, os.path.dirname(os.path.dirname(os.path.abspath(__file__))))
from vlib import build
from vlib.prop import Check, Native, sx_str
from vlib.view import view, L
from mirsym import Program, Interp, models, Lazy, Opaque, syn_models, harness_models  # noqa: F401
from props.recv_common import actual_errors, span_ok, E

OPTS = ("no_dym",)
HOOKS = ["word", "list", "bool", "string", "char", "value", "expr"]
LIT_NAMES = {"Str": "string", "ByteStr": "byte string", "Byte": "byte", "Char": "char", "Int": "int", "Float": "float", "Bool": "bool",
             "Verbatim": "verbatim", "CStr": "unknown"}
EXPR_NAMES = {"Array": "array", "Assign": "assign", "Async": "async", "Await": "await", "Binary": "binary", "Block": "block",
              "Break": "break", "Call": "call", "Cast": "cast", "Closure": "closure", "Const": "const", "Continue": "continue",
              "Field": "field", "ForLoop": "for_loop", "Group": "group", "If": "if", "Index": "index", "Infer": "infer", "Let": "let",
              "Lit": "lit", "Loop": "loop", "Macro": "macro", "Match": "match", "MethodCall": "method_call", "Paren": "paren",
              "Path": "path", "Range": "range", "Reference": "reference", "Repeat": "repeat", "Return": "return", "Struct": "struct",
              "Try": "try", "TryBlock": "try_block", "Tuple": "tuple", "Unary": "unary", "Unsafe": "unsafe", "Verbatim": "verbatim",
              "While": "while", "Yield": "yield"}
DEFAULT_ERR = {"word": ("format", "word"), "list": ("format", "list"), "bool": ("type", "bool"), "string": ("type", "string"),
               "char": ("type", "char")}


class Pol(syn_models.SynPolicy):
    group_depth = 2

    def variants(self, I, st, lz, t):
        if t.adt and t.adt["name"].endswith("error::kind::ErrorKind"):
            return list(range(10))
        return syn_models.SynPolicy.variants(self, I, st, lz, t)

    def len_bounds(self, I, st, name, t):
        if name.endswith(".segments"):
            return (1, 1)
        if name.endswith(".parsed.Ok.0"):
            return (0, 2)
        return (0, 1)


class Router:
    """the documented routing table, evaluated on the decisions of one leaf"""

    def __init__(self, prog, st, mask):
        self.st = st
        self.mask = mask
        self.expr_t = prog.find_ty("syn::Expr")
        self.lit_t = prog.find_ty("syn::Lit")
        self.open = False   # the leaf left open something the table needs
        self.open_key = None

    def has(self, h):
        return bool(self.mask >> HOOKS.index(h) & 1)

    def variant(self, t, name):
        d = self.st.decisions.get(name + "#d")
        if d is None:
            if self.st.decisions.get(name + "#not") is None:
                self.open_key = (name + "#d", t)
            return None
        return t.adt["variants"][d]["name"]

    def hook(self, h, ident, span_nodes):
        """outcome of reaching hook h with input identity `ident`; span_nodes: innermost-first nodes whose span a spanless error gets"""
        if self.has(h):
            name = "hook(%s,%d%s)" % (h, self.mask, "," + ident if ident is not None else "")
            d = self.st.decisions.get(name + "#d")
            if d is None:
                self.open = True
                self.open_hook = name + "#d"
                return None
            if d == 0:
                return ("hit", HOOKS.index(h), name + ".Ok.0")
            own = self.st.decisions.get(name + ".Err.0.span#d")
            return ("err", "conv", name + ".Err.0", ("in", name + ".Err.0.span.Some.0") if own == 1 else None, span_nodes)
        k, w = DEFAULT_ERR[h]
        return ("err", k, w, None, span_nodes)

    def route_nested(self, base):
        d = self.st.decisions.get(base + "#d")
        if d is None:
            self.open = True
            return None
        if d == 1:
            return self.route_value(base + ".Lit.0", [base + ".Lit.0", base])
        return self.route_meta(base + ".Meta.0", [base])

    def route_meta(self, meta, outer):
        form = self.st.decisions.get(meta + "#d")
        if form is None:
            self.open = True
            return None
        if form == 0:
            return self.hook("word", None, [meta] + outer)
        if form == 1:
            pd = self.st.decisions.get(meta + ".List.0.tokens.parsed#d")
            if pd is None:
                self.open = True
                return None
            if pd == 1:
                return ("err", "syn", meta + ".List.0.tokens.parsed.Err.0", ("in", meta + ".List.0.tokens.parsed.Err.0.span"), [meta] + outer)
            n = self.st.decisions.get(meta + ".List.0.tokens.parsed.Ok.0#len")
            if self.has("list") and n is None:
                self.open = True
                return None
            ident = "[" + ",".join("%s.List.0.tokens.parsed.Ok.0[%d]" % (meta, i) for i in range(n or 0)) + "]"
            return self.hook("list", ident, [meta] + outer)
        return self.route_expr(meta + ".NameValue.0.value", [meta] + outer)

    def route_expr(self, ex, outer):
        if self.has("expr"):
            return self.hook("expr", ex, outer)
        v = self.variant(self.expr_t, ex)
        if v == "Lit":
            return self.route_value(ex + ".Lit.0.lit", [ex + ".Lit.0.lit", ex] + outer)
        if v == "Group":
            return self.route_expr(ex + ".Group.0.expr.0.pointer.pointer*", [ex] + outer)
        if v is None:
            # some other (never inspected) expression variant: the default rejects it with the variant's name
            nots = self.st.decisions.get(ex + "#not")
            if nots is None:
                self.open = True
                return None
            return ("err", "type", None, None, [ex] + outer)
        return ("err", "type", EXPR_NAMES.get(v, "unknown"), None, [ex] + outer)

    def route_value(self, lit, outer):
        if self.has("value"):
            return self.hook("value", lit, outer[1:] if outer and outer[0] == lit else outer)
        v = self.variant(self.lit_t, lit)
        if v == "Bool":
            return self.hook("bool", lit + ".Bool.0.value", outer)
        if v == "Str":
            return self.hook("string", lit + ".Str.0.value", outer)
        if v == "Char":
            return self.hook("char", lit + ".Char.0.value", outer)
        if v is None:
            nots = self.st.decisions.get(lit + "#not")
            if nots is None:
                self.open = True
                return None
            return ("err", "type", None, None, outer)
        return ("err", "type", LIT_NAMES.get(v, "unknown"), None, outer)


def render_item(st, mdl, base, nested):
    """witness text for the item (only forms expressible as source text)"""
    def meta_text(meta):
        form = st.decisions.get(meta + "#d")
        if form == 0:
            return "x"
        if form == 1:
            if st.decisions.get(meta + ".List.0.tokens.parsed#d") == 1:
                return "x(=)"
            n = st.decisions.get(meta + ".List.0.tokens.parsed.Ok.0#len", 0)
            return "x(%s)" % ", ".join("k%d" % i for i in range(n))
        v = expr_text(meta + ".NameValue.0.value")
        return None if v is None else "x = " + v

    def expr_text(ex):
        d = st.decisions.get(ex + "#d")
        et = PROG.find_ty("syn::Expr")
        if d is None:
            return "[1]"
        vn = et.adt["variants"][d]["name"]
        if vn == "Lit":
            return lit_text(ex + ".Lit.0.lit")
        if vn == "Group":
            if nested:
                return None  # inside a token list the marker cannot be planted
            inner = expr_text(ex + ".Group.0.expr.0.pointer.pointer*")
            return None if inner is None else "__group!(%s)" % inner
        return {"Array": "[1]", "Path": "a::b", "Binary": "1 + 2", "Call": "f(1)", "Paren": "(1)", "Tuple": "(1, 2)", "Unary": "!a",
                "Reference": "&a", "Range": "1..2", "Macro": "m!(1)", "Index": "a[1]", "Field": "a.b", "Closure": "|| 1", "Block": "{ 1 }",
                "MethodCall": "a.b()", "Cast": "a as u8", "Struct": "S { a: 1 }", "Repeat": "[0; 2]", "Try": "a?", "If": "if a { 1 } else { 2 }",
                "Match": "match a { _ => 1 }", "Unsafe": "unsafe { 1 }", "Loop": "loop { }", "While": "while a { }", "ForLoop": "for a in b { }",
                "Let": None, "Assign": "a = 1", "Async": "async { 1 }", "Await": "a.await", "Break": "break", "Continue": "continue",
                "Return": "return", "Yield": None, "Const": "const { 1 }", "Infer": "_", "TryBlock": None, "Verbatim": None}.get(vn)

    def lit_text(lit):
        d = st.decisions.get(lit + "#d")
        lt = PROG.find_ty("syn::Lit")
        if d is None:
            return "1.5"
        vn = lt.adt["variants"][d]["name"]
        if vn == "Str":
            hk = [k for k in st.decisions if k.startswith("hook(string") and k.endswith("#d")]
            return '"ERR"' if any(st.decisions[k] == 1 for k in hk) else '"s"'
        if vn == "Bool":
            return "true"
        if vn == "Char":
            hk = [k for k in st.decisions if k.startswith("hook(char") and k.endswith("#d")]
            return "'E'" if any(st.decisions[k] == 1 for k in hk) else "'c'"
        return {"Int": "5", "Float": "1.5", "Byte": "b'a'", "ByteStr": 'b"ab"', "CStr": 'c"ab"', "Verbatim": None}.get(vn)

    if nested:
        d = st.decisions.get(base + "#d")
        if d == 1:
            return lit_text(base + ".Lit.0")
        return meta_text(base + ".Meta.0")
    return meta_text(base)


PROG = None


class Completed:
    def __init__(self, decisions):
        self.decisions = decisions


def complete_and_replay(ck, prog, native, l, mask, kind, ename):
    """try concrete completions of the parts the leaf left open; report a violation if the native run contradicts the table"""
    lit_t = prog.find_ty("syn::Lit")
    expr_t = prog.find_ty("syn::Expr")

    def idx(t, n):
        return [i for i, v in enumerate(t.adt["variants"]) if v["name"] == n][0]
    work = [dict(l.decisions)]
    tried = 0
    ck.obligations += 1
    while work and tried < 40:
        dec = work.pop()
        rt = Router(prog, Completed(dec), mask)
        exp = rt.route_nested("item*") if kind == "nested" else rt.route_meta("item*", [])
        if exp is None or rt.open:
            if rt.open_key is not None:
                key, t = rt.open_key
                names = ["Str", "Int", "Bool", "Char"] if t is lit_t else ["Lit", "Path", "Array"]
                for n in names:
                    d2 = dict(dec)
                    d2[key] = idx(t, n)
                    work.append(d2)
            else:
                # open decisions without a type: meta form / nested kind / hook outcomes
                for k in ("item*#d", "item*.Meta.0#d"):
                    if k not in dec:
                        for v in (0, 1, 2):
                            d2 = dict(dec)
                            d2[k] = v
                            work.append(d2)
                        break
                else:
                    # an overridden hook that was never called on this path: complete with "it succeeds"
                    oh = getattr(rt, "open_hook", None)
                    if oh is not None and oh not in dec:
                        d2 = dict(dec)
                        d2[oh] = 0
                        work.append(d2)
                        continue
                    return False
            continue
        tried += 1
        txt = render_item(Completed(dec), None, "item*", kind == "nested")
        if txt is None:
            continue
        req = "(probe_%s %d %s)" % (kind, mask, sx_str(txt))
        nat = native.ask(req)
        r = nat.get("result", {}) if isinstance(nat, dict) else {}
        if exp[0] == "hit":
            agrees = isinstance(r, dict) and "ok" in r and r["ok"][0] == exp[1]
            # the native stand-in hook may reject this particular text
            if isinstance(r, dict) and "err" in r and len(r["err"]) == 1 and r["err"][0]["msg"].startswith("ERR"):
                agrees = True
        else:
            agrees = isinstance(r, dict) and "err" in r
            if exp[1] == "conv":
                agrees = True
        if not agrees:
            ck.report("probe:ignored-input:%s" % (HOOKS[exp[1]] if exp[0] == "hit" else exp[1]),
                      "the implementation never looked at a part of the item that decides the hook; table says %r" % (exp[:3],),
                      {"property": "C15", "crate": "hconv", "request": req, "expected": repr(exp[:3]), "observed": nat})
            return True
    return False


def probe_job(ck, prog, natbin, mask, quick):
    global PROG
    PROG = prog
    native = Native(natbin)
    pol = Pol()
    for kind in ("meta", "nested"):
        I = Interp(prog, models.all_models(OPTS), pol, timeout_ms=ck.timeout_ms)
        e = prog.entry("entry_p%d_%s" % (mask, kind))
        leaves = I.explore(e, [Lazy("item", e.local_tys[1])])
        ename = "entry_p%d_%s" % (mask, kind)
        ck.absorb(I, leaves, ename)
        ck.check_exhaustive(I, leaves, ename)
        for l in leaves:
            if l.status != "returned":
                ck.obligations += 1
                txt = render_item(l, None, "item*", kind == "nested")
                if txt is not None:
                    got = native.ask("(probe_%s %d %s)" % (kind, mask, sx_str(txt)))
                    if "panic" in got:
                        ck.report("probe:panic", "routing panics", {"property": "C15", "crate": "hconv", "request": "(probe_%s %d %s)" % (kind, mask, sx_str(txt)), "observed": got})
                        continue
                ck.engine("%s: leaf %s %s" % (ename, l.status, l.info or l.panics))
                continue
            rt = Router(prog, l, mask)
            exp = rt.route_nested("item*") if kind == "nested" else rt.route_meta("item*", [])
            if exp is None or rt.open:
                # the table depends on a part of the item the implementation never looked at: complete it and replay
                if complete_and_replay(ck, prog, native, l, mask, kind, ename):
                    continue
                ck.engine("%s: routing table needs an input part the implementation never looked at (%r)" % (ename, l.decisions))
                continue
            got = view(I, l, l.ret, e.local_tys[0])
            good = False
            why = ""
            if exp[0] == "hit":
                ck.reach("hit:" + HOOKS[exp[1]])
                if isinstance(got, dict) and got.get("_v") == "Ok":
                    hit = got["0"]["0"]
                    payload = hit["1"]
                    pname = payload.decl().name() if z3.is_expr(payload) and z3.is_const(payload) else (payload.name if isinstance(payload, L) else None)
                    good = hit["0"] == exp[1] and pname == exp[2]
                    why = "routed to hook %r with payload %r, expected hook %s fed with %s" % (hit["0"], pname, HOOKS[exp[1]], exp[2])
                else:
                    why = "rejected although the %s hook accepts" % HOOKS[exp[1]]
            else:
                ck.reach("err:" + exp[1])
                if isinstance(got, dict) and got.get("_v") == "Err":
                    act = actual_errors(got["0"], l)
                    if len(act) != 1:
                        why = "expected exactly one error, got %r" % (act,)
                    else:
                        akind, awhat, alocs, aspan = act[0]
                        _, ekind, ewhat, own, nodes = exp
                        if ekind == "syn":
                            kind_ok = akind == "custom" and awhat == z3.String(ewhat + ".msg").sexpr()
                        elif ekind == "conv":
                            kind_ok = akind == "conv" and awhat == ewhat
                        else:
                            kind_ok = akind == ekind and (ewhat is None or awhat == ewhat)
                        if not kind_ok:
                            why = "error %r, expected %r" % (act[0], exp[:3])
                        elif own is not None:
                            good = tuple(aspan or ()) == tuple(own)
                            why = "hook error's own span replaced: %r vs %r" % (aspan, own)
                        else:
                            # spanless errors come back carrying a span inside the item (the innermost enclosing node or any enclosing one)
                            good = aspan is not None and aspan[0] in ("node", "in") and any(
                                aspan[1] == n or aspan[1].startswith(n + ".") or aspan[1].startswith(n + "[") or aspan[1].startswith(n + "*")
                                for n in nodes)
                            why = "span %r is not inside the item (%r)" % (aspan, nodes)
                else:
                    why = "accepted (%r) although the table says %r" % (got, exp[:3])
            txt = render_item(l, None, "item*", kind == "nested")
            req = None if txt is None else "(probe_%s %d %s)" % (kind, mask, sx_str(txt))
            if good:
                ck.ok()
                if req is not None and exp[0] == "hit":
                    nat = native.ask(req)
                    r = nat.get("result", {})
                    if isinstance(r, dict) and "ok" in r and r["ok"][0] == exp[1]:
                        ck.native_agree += 1
                    else:
                        ck.report("probe:native:%s" % HOOKS[exp[1]], "native routing differs from the table",
                                  {"property": "C15", "crate": "hconv", "request": req, "expected_hook": HOOKS[exp[1]], "observed": nat})
                elif req is not None:
                    nat = native.ask(req)
                    r = nat.get("result", {})
                    if isinstance(r, dict) and "err" in r and len(r["err"]) == 1 and r["err"][0]["span"]:
                        ck.native_agree += 1
                    elif isinstance(r, dict) and "ok" in r and exp[1] == "conv":
                        pass  # the native stand-in hook accepted this particular text
                    else:
                        ck.report("probe:native:err", "native routing differs from the table",
                                  {"property": "C15", "crate": "hconv", "request": req, "expected": repr(exp[:3]), "observed": nat})
                if len(ck.samples) < 8 and mask in (0, 127, 8):
                    ck.sample({"probe_mask": mask, "overridden": [h for h in HOOKS if mask >> HOOKS.index(h) & 1], "entry": kind,
                               "decisions": {k: str(v) for k, v in l.decisions.items()}, "expected": repr(exp[:3]), "witness": txt})
            else:
                ck.obligations += 1
                if req is None:
                    ck.engine("%s: %s (no textual witness)" % (ename, why))
                    continue
                nat = native.ask(req)
                r = nat.get("result", {})
                native_agrees_with_table = (exp[0] == "hit" and isinstance(r, dict) and "ok" in r and r["ok"][0] == exp[1]) or \
                    (exp[0] == "err" and isinstance(r, dict) and "err" in r and len(r["err"]) == 1 and (r["err"][0]["span"] or exp[3] is None and False))
                if native_agrees_with_table and exp[0] == "hit":
                    ck.engine("%s: %s, but the native run agrees with the table: %s" % (ename, why, req))
                else:
                    ck.report("probe:%s:%s" % (exp[0], exp[1] if exp[0] == "err" else HOOKS[exp[1]]), why,
                              {"property": "C15", "crate": "hconv", "request": req, "expected": repr(exp[:3]), "observed": nat})
    native.close()


def prepare(ck):
    """configure `ck` and return the list of jobs of this property's exploration"""
    ck.crate = "hconv"
    quick = ck.tier == "quick"
    if quick:
        masks = sorted(set([0, 127] + [1 << i for i in range(7)] + [127 ^ (1 << i) for i in range(7)]))
    else:
        masks = list(range(128))
    ck.bounds = {"probe_implementers": "%d of the 128 hook subsets" % len(masks), "item": "one lazily initialised symbolic NestedMeta / Meta",
                 "invisible_group_nesting": "<= 2", "nested_list": "parse outcome uninterpreted, 0..2 items"}
    ck.outside = ["(a) the parser half: NestedMeta::parse lookahead, comma splitting and the print/re-parse round trip are syn's parser and printer",
                  "group nesting deeper than 2"]
    ck.assumptions = ["hook bodies are uninterpreted: each overridden hook returns an arbitrary Ok(payload) / Err(error with or without span)",
                      "syn token parsing of a list body is an uninterpreted outcome"]
    mir = build.dump_mir("hconv", opts=OPTS)
    prog = Program(mir)
    natbin = build.build_native("hconv")
    for m in masks:
        ck.programs.add("hconv::P%d" % m)
    return [(lambda sub, m=m: probe_job(sub, prog, natbin, m, quick)) for m in masks]


def main():
    ck = Check("C15")
    ck.run_jobs(prepare(ck))
    ck.require_reached(["hit:" + h for h in HOOKS] + ["err:format", "err:type", "err:conv", "err:syn"])
    ck.finish()


if __name__ == "__main__":
    main()
