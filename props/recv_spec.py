"""Declarative description of the generated receiver family (single source for the Rust harness
generator and for the reference models)."""


def F(name, ty="Opq", **o):
    d = dict(name=name, ty=ty, rename=None, default=None, skip=False, multiple=False, flatten=False,
             with_=None, map=None, and_then=None)
    d.update(o)
    return d


def R(name, fields, **o):
    d = dict(name=name, fields=fields, trait="FromMeta", default=None, rename_all=None, allow_unknown=False,
             map=None, and_then=None, attributes=None, forward_attrs=None, magic=[], supports=None)
    d.update(o)
    return d


# struct receivers deriving FromMeta (C01/C02/C03/C17)
STRUCTS = [
    R("S1", [F("a"), F("b")]),
    R("S2", [F("a", rename="x"), F("b", default="Default"), F("c", default="fn")]),
    R("S3", [F("a"), F("s", skip=True), F("c", default="fn"), F("d")], default="Default"),
    R("S4", [F("m", ty="Vec<Opq>", multiple=True), F("n", ty="Vec<Opq>", multiple=True, default="fnvec"), F("a")]),
    R("S5i", [F("x"), F("y", default="Default")]),
    R("S5", [F("my_name"), F("rest", ty="S5i", flatten=True)], rename_all="camelCase"),
    R("S6", [F("a", with_="path"), F("b", map="map"), F("c", and_then="and_then", default="Default")]),
    R("S7", [F("a"), F("b", default="Default")], allow_unknown=True),
    R("S8", [F("my_field"), F("other_one", rename="keep_me")], rename_all="PascalCase"),
    R("S8b", [F("my_field"), F("x2")], rename_all="SCREAMING_SNAKE_CASE"),
    R("S8c", [F("my_field")], rename_all="lowercase"),
    R("S8d", [F("my_field")], rename_all="snake_case"),
    R("S9c", [F("v")]),
    R("S9b", [F("inner", ty="S9c")]),
    R("S9", [F("inner", ty="S9b"), F("o", ty="Option<S9c>")]),
    R("S10", [F("a", ty="bool"), F("b", ty="String"), F("c", ty="Option<u8>"), F("d", ty="Vec<String>", multiple=True)]),
    R("S11", [F("n", ty="OpqN"), F("a")]),
    R("S12", [F("a"), F("b", default="Default")], and_then="container"),
    R("S13", [F("a", with_="closure"), F("s", skip=True, default="fn")], map="container"),
    R("S14i", [F("p"), F("q", default="Default")], allow_unknown=True),
    R("S14", [F("a"), F("fl", ty="S14i", flatten=True), F("k", skip=True)], default="Default"),
    # combinations the receivers above keep apart: rename + multiple, with + default fn, Option leaf, with + and_then,
    # all under rename_all and a container default
    R("S15", [F("many_v", ty="Vec<Opq>", multiple=True, rename="x"), F("b_w", with_="path", default="fn"),
              F("c_o", ty="Option<Opq>"), F("d_e", with_="closure", and_then="and_then")],
      rename_all="camelCase", default="Default"),
    # a lenient receiver that also has a flatten member: unknown names go to the flatten member, they are not dropped
    R("S16i", [F("p"), F("q", default="Default")]),
    R("S16", [F("a"), F("fl", ty="S16i", flatten=True)], allow_unknown=True),
]

BY_NAME = {r["name"]: r for r in STRUCTS}


def apply_rule(rule, field):
    if rule in (None, "lowercase", "snake_case"):
        return field
    if rule in ("PascalCase", "camelCase"):
        out = ""
        cap = True
        for ch in field:
            if ch == "_":
                cap = True
            elif cap:
                out += ch.upper()
                cap = False
            else:
                out += ch
        if rule == "camelCase":
            out = out[:1].lower() + out[1:]
        return out
    if rule == "SCREAMING_SNAKE_CASE":
        return field.upper()
    if rule == "kebab-case":
        return field.replace("_", "-")
    raise ValueError(rule)


def eff_name(r, f):
    if f["skip"] or f["flatten"]:
        return None
    if f["rename"]:
        return f["rename"]
    return apply_rule(r["rename_all"], f["name"])


OPQ_DEFAULT = 9000
FIELD_FN_DEFAULT = 9003
FNVEC_DEFAULT = [9004, 9005]
OPQN_NONE = 9500


def container_default_value(r, idx):
    return 9100 + idx


# ------------------------------------------------------------------------------------------------ enum receivers (C09)
def V(name, kind="unit", **o):
    """kind: unit | newtype (ty) | struct (fields)"""
    d = dict(name=name, kind=kind, rename=None, skip=False, word=False, explicit_not_word=False, ty=None, fields=None)
    d.update(o)
    return d


def EN(name, variants, **o):
    d = dict(name=name, variants=variants, rename_all=None, allow_unknown=False, from_word=None, from_none=None)
    d.update(o)
    return d


ENUMS = [
    EN("E1", [V("Unit"), V("VeryTasty"), V("Renamed", rename="x"), V("Hidden", skip=True), V("New", "newtype", ty="Opq"),
              V("NewN", "newtype", ty="OpqN"), V("Strct", "struct", fields=[F("a"), F("b", default="Default")])]),
    EN("E2", [V("FirstOne"), V("Second", rename="two"), V("HiddenNew", "newtype", ty="Opq", skip=True), V("Cfg", "struct", fields=[F("x")])],
       rename_all="PascalCase"),
    EN("E3", [V("Alpha"), V("BetaGamma"), V("Dflt", word=True)], rename_all="SCREAMING_SNAKE_CASE"),
    EN("E4", [V("On"), V("Off"), V("Level", "newtype", ty="Opq")], from_word="on", from_none="off", rename_all="lowercase"),
    EN("E5", [V("Loose", "struct", fields=[F("p")]), V("KebabName")], allow_unknown=True, rename_all="camelCase"),
    # explicit `word = false`: a variant opted out of the bare-word form (only one variant may carry a `word` option at all -
    # the derive counts `word = false` too; that is derive-time validation, C10)
    EN("E6", [V("Quiet", explicit_not_word=True), V("Loud"), V("Gone", skip=True)], rename_all="kebab-case"),
]
ENUM_BY_NAME = {e["name"]: e for e in ENUMS}


def apply_variant_rule(rule, variant):
    if rule in ("PascalCase",):
        return variant
    if rule == "lowercase":
        return variant.lower()
    if rule == "camelCase":
        return variant[:1].lower() + variant[1:]
    snake = ""
    for i, ch in enumerate(variant):
        if i > 0 and ch.isupper():
            snake += "_"
        snake += ch.lower()
    if rule in (None, "snake_case"):
        return snake
    if rule == "SCREAMING_SNAKE_CASE":
        return snake.upper()
    if rule == "kebab-case":
        return snake.replace("_", "-")
    raise ValueError(rule)


def variant_name(en, v):
    if v["rename"]:
        return v["rename"]
    return apply_variant_rule(en["rename_all"], v["name"])
