"""C05 - Accumulator: Ok iff nothing was recorded; nothing recorded is ever lost.

Decided by symbolic execution of the real MIR of every Accumulator operation from an arbitrary
valid pre-state (inductive step), of scope exit / drop / drop-during-unwind, and of a bounded
history driver with symbolic op codes; each leaf compared with an abstract list model and replayed
natively."""
import sys
import os
import z3

sys.path.insert(0, os.path.dirname(os.path.dirname(os.path.abspath(__file__))))
from vlib import build
from vlib.prop import Check, Native, sx_str
from vlib.view import view, L
from mirsym import Program, Interp, models, Lazy
from mirsym.lazy import Policy

DEFUSED = "darling internal error: Accumulator accessed after defuse"
BOMB0 = "darling::error::Accumulator dropped without being finished"


def bomb(n):
    return BOMB0 if n == 0 else BOMB0 + ". %d errors were lost." % n


class Pol(Policy):
    def __init__(self, maxlen, script_ops, script_errs):
        self.maxlen = maxlen
        self.script_ops = script_ops
        self.script_errs = script_errs

    def len_bounds(self, I, st, name, t):
        if name == "ops*":
            return (0, self.script_ops)
        if name == "errs":
            return (0, self.script_errs)
        return (0, self.maxlen)


def vec_items(v, st):
    """a viewed Vec: list, or an untouched input vector L(name) expanded through its decided length"""
    if isinstance(v, L):
        n = st.decisions.get(v.name + "#len")
        if n is None:
            return None
        return [L("%s[%d]" % (v.name, i)) for i in range(n)]
    return v


def canon_err(v, st):
    """view of a darling::Error -> ('E', name) | ('M', [..]) | ('?', v)"""
    if isinstance(v, L):
        return ("E", v.name)
    if isinstance(v, dict) and v.get("_") == "darling::Error":
        k = v["kind"]
        if isinstance(k, dict) and k.get("_v") == "Multiple" and v["locations"] == [] and isinstance(v["span"], dict) and v["span"].get("_v") == "None":
            items = vec_items(k["0"], st)
            if items is not None:
                return ("M", [canon_err(x, st) for x in items])
    return ("?", repr(v))


def multiple(toks):
    if len(toks) == 1:
        return ("E", toks[0])
    return ("M", [("E", t) for t in toks])


def acc_state(v, st):
    """view of an Accumulator -> list of error canon | None (defused) | ('any', name)"""
    if isinstance(v, L):
        return ("any", v.name)
    inner = v["0"]
    if isinstance(inner, L):
        return ("any", inner.name)
    if inner["_v"] == "None":
        return None
    vec = vec_items(inner["0"], st)
    if vec is None:
        return ("anyvec", inner["0"].name)
    return [canon_err(x, st) for x in vec]


def pre_state(st, accname="acc"):
    """the decided shape of the input accumulator on this path"""
    d = st.decisions.get(accname + ".0#d")
    if d is None:
        return ("any", accname)
    if d == 0:
        return None
    n = st.decisions.get(accname + ".0.Some.0#len")
    if n is None:
        return ("anyvec", accname + ".0.Some.0")
    return [("E", "%s.0.Some.0[%d]" % (accname, i)) for i in range(n)]


def err_sx(c):
    if c[0] == "E":
        return "(custom %s)" % sx_str(c[1])
    return "(multiple %s)" % " ".join(err_sx(x) for x in c[1])


def err_json(c):
    if c[0] == "E":
        return {"msg": c[1], "span": False, "len": 1}
    kids = [err_json(x) for x in c[1]]
    return {"msg": "Multiple errors: (%s)" % ", ".join(k["msg"] for k in kids), "span": False,
            "len": sum(k["len"] for k in kids), "children": kids}


def acc_sx(pre):
    return "(acc %s)" % " ".join(err_sx(e) for e in pre)


def main():
    ck = Check("C05")
    quick = ck.tier == "quick"
    maxlen = 3 if quick else 4
    nops = 3 if quick else 4
    nerrs = 3 if quick else 4
    ck.bounds = {"pre_state_errors": "0..%d (symbolic, unconstrained Error values)" % maxlen,
                 "script_ops": "length 0..%d, each op an unconstrained u8" % nops,
                 "script_errors": "0..%d" % nerrs, "extend_arg": "0..%d" % maxlen}
    ck.outside = ["accumulators holding more than %d errors before the step (the step is uniform in the length: vector model)" % maxlen,
                  "histories longer than %d operations in the direct script (covered inductively by the per-operation steps)" % nops,
                  "panic payload formatting beyond the message text"]
    ck.assumptions = ["std Vec/String/fmt/panic machinery modelled (mirsym/models.py); thread::panicking() = interpreter's unwinding flag",
                      "representation invariant of the pre-state: Accumulator(Some(vec)) or Accumulator(None)"]
    mir = build.dump_mir("hcore")
    prog = Program(mir)
    native = Native(build.build_native("hcore"))
    ck.programs.add("hcore (hand-written entries over darling::error::Accumulator)")
    pol = Pol(maxlen, nops, nerrs)

    def explore(entry, names):
        I = Interp(prog, models.all_models(), pol, timeout_ms=10000 if quick else 60000)
        e = prog.entry(entry)
        args = [Lazy(n, ty) for n, ty in zip(names, e.local_tys[1:1 + e.arg_count])]
        leaves = I.explore(e, args)
        ck.absorb(I, leaves, entry)
        ck.check_exhaustive(I, leaves, entry)
        return I, e, leaves

    def confirm(entry, key, what, request, expected, sym):
        """symbolic obligation failed: replay natively; report only what reproduces"""
        got = native.ask(request)
        if got == expected:
            ck.engine("%s: symbolic outcome %r disagrees with oracle but native run agrees with oracle (request %s)" % (entry, sym, request))
        else:
            ck.report(key, what, {"property": "C05", "entry": entry, "request": request, "expected": expected, "observed": got,
                                  "symbolic": repr(sym)})

    def validate(entry, request, expected):
        got = native.ask(request)
        if got == expected:
            ck.native_agree += 1
            return True
        ck.report("%s:native" % entry, "native outcome differs from the reference model",
                  {"property": "C05", "entry": entry, "request": request, "expected": expected, "observed": got})
        return False

    # ------------------------------------------------------------------ one-step operations
    def step_entry(entry, names, request_of, expect_of):
        """expect_of(pre, st, I, e) -> (kind, payload) where kind in returned/panicked; payload canonical"""
        I, e, leaves = explore(entry, names)
        for l in leaves:
            if l.status not in ("returned", "panicked"):
                continue
            pre = pre_state(l)
            if isinstance(pre, tuple):
                # accumulator never inspected on this path: treat as armed-empty..maxlen for replay, identity symbolically
                pre_list = None
            exp_kind, exp_val, exp_native = expect_of(pre, l, I, e)
            if l.status == "returned":
                got = ("returned", view(I, l, l.ret, e.local_tys[0]))
            else:
                got = ("panicked", list(l.panics))
            ck.reach("%s:%s" % (entry, l.status))
            ck.reach("%s" % l.status)
            ok = exp_kind == got[0] and exp_val(got[1], l)
            req = request_of(pre, l)
            if ok:
                ck.ok()
                ck.sample({"entry": entry, "decisions": dict(l.decisions), "outcome": repr(got)[:300], "native_request": req})
                if req is not None and pre is not None:
                    validate(entry, req, exp_native)
            else:
                ck.obligations += 1
                if req is not None and pre is not None:
                    confirm(entry, "%s:%s" % (entry, "defused" if pre is None else "armed"), "accumulator step disagrees with the list model",
                            req, exp_native, got)
                else:
                    ck.engine("%s: obligation failed on a state that cannot be built natively: %r" % (entry, got))

    def eq_scalar(l, got, name, bits):
        if isinstance(got, int) and not z3.is_expr(got):
            return False
        okv, _ = ck.smt_valid(l.pc, got == z3.BitVec(name, bits))
        return bool(okv)

    # push
    def exp_push(pre, l, I, e):
        if pre is None:
            return "panicked", (lambda g, l: g == [DEFUSED]), {"panic": DEFUSED}
        post = pre + [("E", "e")]
        return "returned", (lambda g, l: acc_state(g, l) == post), {"result": [err_json(x) for x in post]}
    step_entry("entry_push", ["acc", "e"], lambda pre, l: None if pre is None else "(push %s (custom \"e\"))" % acc_sx(pre), exp_push)

    # handle / handle_in
    kind_t = prog.find_ty("darling::error::kind::ErrorKind")
    multiple_idx = [i for i, v in enumerate(kind_t.adt["variants"]) if v["name"] == "Multiple"][0]

    def handled_error(l, name="r.Err.0"):
        """canonical form of the handled error: a plain error, or - when the path looked inside and found a bundle - that bundle
        (so that the native replay hands over a bundle too: its members must stay one recorded error)"""
        if l.decisions.get(name + ".kind#d") == multiple_idx:
            n = l.decisions.get(name + ".kind.Multiple.0#len")
            if n is not None:
                return ("M", [("E", "%s.kind.Multiple.0[%d]" % (name, i)) for i in range(n)])
        return ("E", name)

    for ent, req in (("entry_handle", "handle"), ("entry_handle_in", "handle_in")):
        def exp_handle(pre, l, I, e):
            isok = l.decisions.get("r#d") == 0
            if isok:
                # accumulator untouched (possibly never inspected), value returned
                def chk(g, l):
                    a, r = g
                    if not (isinstance(r, dict) and r.get("_v") == "Some"):
                        return False
                    same = (isinstance(a, L) and a.name == "acc") or (pre is not None and not isinstance(pre, tuple) and acc_state(a, l) == pre)
                    return same and eq_scalar(l, r["0"], "r.Ok.0", 32)
                p = [] if (pre is None or isinstance(pre, tuple)) else pre
                return "returned", chk, {"result": {"acc": [err_json(x) for x in p], "ret": 41}}
            if pre is None:
                return "panicked", (lambda g, l: g == [DEFUSED]), {"panic": DEFUSED}
            post = pre + [handled_error(l)]
            return "returned", (lambda g, l: acc_state(g[0], l) in (post, pre + [("E", "r.Err.0")]) and isinstance(g[1], dict) and g[1].get("_v") == "None"), \
                {"result": {"acc": [err_json(x) for x in post], "ret": None}}

        def req_handle(pre, l, req=req):
            isok = l.decisions.get("r#d") == 0
            p = [] if (pre is None or isinstance(pre, tuple)) else pre
            if isok:
                return "(%s %s (ok 41))" % (req, acc_sx(p))
            if pre is None:
                return None
            return "(%s %s (err %s))" % (req, acc_sx(p), err_sx(handled_error(l)))
        # when the accumulator is untouched pre is ('any', ..): make it natively an empty armed one
        I, e, leaves = None, None, None
        step_entry_pre_any = True
        step_entry(ent, ["acc", "r"], lambda pre, l: req_handle([] if isinstance(pre, tuple) else pre, l), exp_handle)

    # extend
    def exp_extend(pre, l, I, e):
        if pre is None:
            return "panicked", (lambda g, l: g == [DEFUSED]), {"panic": DEFUSED}
        n = l.decisions.get("v#len") or 0
        add = [("E", "v[%d]" % i) for i in range(n)]
        if isinstance(pre, tuple):
            # the accumulator was not inspected on this path (nothing to add): it must come back untouched
            return "returned", (lambda g, l: n == 0 and acc_state(g, l) == pre), {"result": []}
        post = pre + add
        return "returned", (lambda g, l: acc_state(g, l) == post), {"result": [err_json(x) for x in post]}
    step_entry("entry_extend", ["acc", "v"],
               lambda pre, l: None if (pre is None or isinstance(pre, tuple)) else "(extend %s (v %s))" % (acc_sx(pre), " ".join(err_sx(("E", "v[%d]" % i)) for i in range(l.decisions.get("v#len", 0)))),
               exp_extend)

    # finish / finish_with / checkpoint
    def exp_finish(pre, l, I, e):
        if pre is None:
            return "panicked", (lambda g, l: g == [DEFUSED]), {"panic": DEFUSED}
        if not pre:
            return "returned", (lambda g, l: isinstance(g, dict) and g.get("_v") == "Ok"), {"result": {"ok": None}}
        m = multiple([x[1] for x in pre])
        return "returned", (lambda g, l: isinstance(g, dict) and g.get("_v") == "Err" and canon_err(g["0"], l) == m), {"result": {"err": err_json(m)}}
    step_entry("entry_finish", ["acc"], lambda pre, l: None if pre is None else "(finish %s)" % acc_sx(pre), exp_finish)

    def exp_finish_with(pre, l, I, e):
        if pre is None:
            return "panicked", (lambda g, l: g == [DEFUSED]), {"panic": DEFUSED}
        if not pre:
            return "returned", (lambda g, l: isinstance(g, dict) and g.get("_v") == "Ok" and eq_scalar(l, g["0"], "x", 32)), {"result": {"ok": 77}}
        m = multiple([x[1] for x in pre])
        return "returned", (lambda g, l: isinstance(g, dict) and g.get("_v") == "Err" and canon_err(g["0"], l) == m), {"result": {"err": err_json(m)}}
    step_entry("entry_finish_with", ["acc", "x"], lambda pre, l: None if pre is None else "(finish_with %s 77)" % acc_sx(pre), exp_finish_with)

    def exp_checkpoint(pre, l, I, e):
        if pre is None:
            return "panicked", (lambda g, l: g == [DEFUSED]), {"panic": DEFUSED}
        if not pre:
            # a fresh, armed, empty accumulator
            return "returned", (lambda g, l: isinstance(g, dict) and g.get("_v") == "Ok" and acc_state(g["0"], l) == []), {"result": {"ok": "fresh"}}
        m = multiple([x[1] for x in pre])
        return "returned", (lambda g, l: isinstance(g, dict) and g.get("_v") == "Err" and canon_err(g["0"], l) == m), {"result": {"err": err_json(m)}}
    step_entry("entry_checkpoint", ["acc"], lambda pre, l: None if pre is None else "(checkpoint %s)" % acc_sx(pre), exp_checkpoint)
    # natively: the accumulator handed back by checkpoint is armed
    validate("entry_checkpoint", "(checkpoint_then_drop (acc))", {"panic": BOMB0})

    # into_inner: identity on the vector
    def exp_into_inner(pre, l, I, e):
        if pre is None:
            return "panicked", (lambda g, l: g == [DEFUSED]), {"panic": DEFUSED}
        if isinstance(pre, tuple):
            return "returned", (lambda g, l: isinstance(g, L) and g.name == "acc.0.Some.0"), {"result": []}
        return "returned", (lambda g, l: [canon_err(x, l) for x in (vec_items(g, l) or [])] == pre), {"result": [err_json(x) for x in pre]}
    step_entry("entry_into_inner", ["acc"], lambda pre, l: "(into_inner %s)" % acc_sx([] if isinstance(pre, tuple) else (pre or [])) if pre is not None else None, exp_into_inner)

    # drop / scope exit: the bomb
    for ent, names, reqname in (("entry_drop", ["acc"], "drop"), ("entry_scope_exit", ["acc", "n"], "scope_exit")):
        def exp_drop(pre, l, I, e, ent=ent):
            if pre is None:
                return "returned", (lambda g, l: True), {"result": None}
            return "panicked", (lambda g, l: g == [bomb(len(pre))]), {"panic": bomb(len(pre))}
        step_entry(ent, names, lambda pre, l, reqname=reqname: None if pre is None else "(%s %s%s)" % (reqname, acc_sx(pre), " 5" if reqname == "scope_exit" else ""), exp_drop)

    # drop during unwinding: exactly one panic (the original), no abort
    I, e, leaves = explore("entry_unwind", ["acc"])
    for l in leaves:
        ck.reach("unwind:%s" % l.status)
        pre = pre_state(l)
        if l.status == "panicked" and l.panics == ["original panic"]:
            ck.ok()
            p = [] if (pre is None or isinstance(pre, tuple)) else pre
            validate("entry_unwind", "(unwind %s)" % acc_sx(p), {"panic": "original panic"})
            ck.sample({"entry": "entry_unwind", "decisions": dict(l.decisions), "outcome": "panicked once: original panic; accumulator dropped during unwinding without a second panic"})
        elif l.status == "abort":
            ck.obligations += 1
            p = [] if (pre is None or isinstance(pre, tuple)) else pre
            confirm("entry_unwind", "entry_unwind:double-panic", "dropping an armed accumulator during unwinding panics again (abort)",
                    "(unwind %s)" % acc_sx(p), {"panic": "original panic"}, (l.status, l.panics))
        else:
            ck.obligations += 1
            ck.engine("entry_unwind: unexpected leaf %s %s" % (l.status, l.panics))

    # default
    I, e, leaves = explore("entry_default", [])
    for l in leaves:
        g = view(I, l, l.ret, e.local_tys[0])
        if l.status == "returned" and acc_state(g, l) == []:
            ck.ok()
        else:
            ck.obligations += 1
            ck.report("entry_default", "Error::accumulator() is not an armed empty accumulator", {"property": "C05", "entry": "entry_default", "observed": repr(g)})

    # ------------------------------------------------------------------ bounded histories with symbolic op codes
    def script_oracle(ops, ntoks):
        acc = []
        src = ["errs[%d]" % i for i in range(ntoks)]
        log = []
        for used, op in enumerate(ops, 1):
            if op == 0:
                if src:
                    acc.append(src.pop(0))
            elif op == 1:
                log.append(1)
            elif op == 2:
                if src:
                    acc.append(src.pop(0))
                    log.append(2)
            elif op == 3:
                for _ in range(2):
                    if src:
                        acc.append(src.pop(0))
            elif op == 4:
                if acc:
                    return ("err", multiple(acc), used)
                log.append(4)
            elif op == 5:
                if src:
                    acc.append(src.pop(0))
                    log.append(5)
                else:
                    log.append(9)
        if acc:
            return ("err", multiple(acc), len(ops))
        return ("ok", log, len(ops))

    I, e, leaves = explore("entry_script", ["ops", "errs"])
    nscript = 0
    for l in leaves:
        if l.status not in ("returned", "panicked"):
            continue
        n = l.decisions.get("ops*#len", 0)
        m = l.decisions.get("errs#len")
        mdl = ck.model_of(l.pc)
        if mdl is None:
            ck.engine("entry_script: leaf with unsatisfiable path condition")
            continue
        ops = []
        cls = []
        for i in range(n):
            v = z3.BitVec("ops*[%d]" % i, 8)
            c = mdl.eval(v, model_completion=True).as_long()
            ops.append(c)
            cls.append(v == c if c <= 5 else z3.UGT(v, 5))
        ntoks = m if m is not None else 0
        exp3 = script_oracle(ops, ntoks)
        exp = exp3[:2]
        # the leaf is uniform in the class of every op code the model consumed (so one witness stands for the leaf)
        cls = cls[:exp3[2]]
        okv, _ = ck.smt_valid(l.pc, z3.And(cls) if cls else True)
        if not okv:
            ck.engine("entry_script: leaf not class-uniform")
            continue
        if l.status == "returned":
            g = view(I, l, l.ret, e.local_tys[0])
            if g.get("_v") == "Ok":
                got = ("ok", g["0"] if isinstance(g["0"], list) else g["0"])
            else:
                got = ("err", canon_err(g["0"], l))
        else:
            got = ("panic", l.panics)
        req = "(script (%s) (%s))" % (" ".join(str(x) for x in ops), " ".join(err_sx(("E", "errs[%d]" % i)) for i in range(ntoks)))
        expn = {"result": {"ok": exp[1]}} if exp[0] == "ok" else {"result": {"err": err_json(exp[1])}}
        ck.reach("script:" + exp[0])
        if got == exp:
            ck.ok()
            nscript += 1
            if nscript % (7 if quick else 23) == 0 or n == nops:
                validate("entry_script", req, expn)
            if nscript % 97 == 0:
                ck.sample({"entry": "entry_script", "ops": ops, "errors": ntoks, "path_condition": [str(c) for c in l.pc][:12], "outcome": repr(got)[:200]})
        else:
            ck.obligations += 1
            confirm("entry_script", "entry_script:history", "history outcome differs from the list model", req, expn, got)

    ck.require_reached(["returned", "panicked", "unwind:panicked", "script:ok", "script:err", "entry_drop:panicked", "entry_finish:returned"])
    # refutation witness: a deliberately wrong oracle must be rejected by the same comparison
    wrong = multiple(["a", "b"]) == multiple(["b", "a"])
    if wrong:
        ck.engine("refutation witness failed")
    native.close()
    ck.finish()


if __name__ == "__main__":
    main()
