"""C13 (reduced) - syntax-valued conversion targets return the user's syntax node, or the parse of the quoted string, or a spanned error.

Every syn-valued `FromMeta` target of core/src/from_meta.rs and core/src/util (expressions and their array / path / range forms,
paths, identifiers, types, visibility, where clauses and predicates, each literal kind and vectors of them, numeric arrays, path
lists, whole meta items, callables, IdentString, Punctuated, and the two `parse_expr` helpers) is executed on a lazily initialised
symbolic `syn::Meta` (word / list / name = <any expression form>, invisible groups nested to a bound, every literal kind).

Parsing the contents of a string literal as `T` (`LitStr::parse`, `parse_with`, `syn::parse_str`) is an uninterpreted outcome
per (literal, T): Ok(fresh symbolic T) or Err.  The reference table below says, per target and form, which of three things must
come back: the designated sub-node of the input *by identity of origin* (so it prints like what the user wrote), the parse
outcome of the quoted string, or one error of the documented kind carrying a span inside the offending node.  Vectors keep the
order and number of elements.  That syn's parser and printer are mutually inverse (token-for-token equality of bare and quoted
spelling) is a property of syn, outside /repo; the native replay of sampled witnesses does compare the printed tokens."""
import os
import re
import sys
import z3

sys.path.insert(0, os.path.dirname(os.path.dirname(os.path.abspath(__file__))))
from vlib import build
from vlib.prop import Check, Native, sx_str
from vlib.view import view, L
from mirsym import Program, Interp, models, Lazy, Opaque, syn_models, harness_models  # noqa: F401
from props.recv_common import actual_errors, replay_panic
from props.C12 import rep

OPTS = ("no_dym",)
BOX = ".0.pointer.pointer*"
LIT_WORD = {"Str": "string", "ByteStr": "byte string", "CStr": "unknown", "Byte": "byte", "Char": "char", "Int": "int", "Float": "float", "Bool": "bool", "Verbatim": "verbatim"}
NAME_RE = re.compile(r"(?:item\*|parse<[^>]*(?:<[^>]*>)?[^>]*>\()[A-Za-z0-9_\.\[\]\*<>\(\),:]*")


def snake(v):
    out = ""
    for i, c in enumerate(v):
        if c.isupper() and i:
            out += "_"
        out += c.lower()
    return out


EXPR_WORD_FIX = {"RawAddr": "unknown"}


class Pol(syn_models.SynPolicy):
    def __init__(self, gd, nlist, numeric=False):
        super().__init__()
        self.group_depth = gd
        self.nlist = nlist
        self.numeric = numeric

    def str_content(self, I, st, name):
        # quoted elements of numeric arrays are handed to the integer parser: a byte string of bounded length (values are C11's subject)
        if self.numeric and ".elems[" in name and name.endswith(".value"):
            from mirsym.lazy import decide_len, constrain_once
            from mirsym.values import ByteSeq
            n = decide_len(I, st, name, 0, 1)
            bs = []
            for i in range(n):
                b = z3.BitVec("%s[%d]" % (name, i), 8)
                constrain_once(st, "%s[%d]" % (name, i), z3.ULT(b, 128))
                bs.append(b)
            return ByteSeq(bs)
        return None

    def variants(self, I, st, lz, t):
        if t.adt and t.adt["name"].endswith("error::kind::ErrorKind"):
            return list(range(10))
        return syn_models.SynPolicy.variants(self, I, st, lz, t)

    def len_bounds(self, I, st, name, t):
        if name.endswith(".segments"):
            return (1, 2)
        if name.endswith(".parsed.Ok.0") or name.endswith(".elems") or name.endswith(".predicates"):
            return (0, self.nlist)
        return (0, 1)

    def digits_bounds(self, name):
        return (1, 1)


# --------------------------------------------------------------------------------------------------------------- reference table
class Ref:
    """expected outcome of converting the symbolic item of leaf `l` to target `tg`"""

    def __init__(self, prog, l, tg, dflt=None):
        self.l = l
        self.tg = tg
        self.dflt = dflt or {}    # completion of input parts the path never inspected: {"expr": form, "lit": kind}
        self.exprv = [v["name"] for v in prog.find_ty("syn::Expr").adt["variants"]]
        self.litv = [v["name"] for v in prog.find_ty("syn::Lit").adt["variants"]]
        self.open = None

    def d(self, k):
        return self.l.decisions.get(k)

    # -- outcomes
    def err(self, kind, what, span):
        return ("err", kind, what, span)

    def expr_form(self, ex):
        """variant name of the expression at ex, or ('other', excluded set) when the path treats every remaining form alike"""
        d = self.d(ex + "#d")
        if d is not None:
            return self.exprv[d]
        ns = self.d(ex + "#not")
        if ns is not None:
            excl = frozenset(self.exprv[i] for i in ns)
            if self.dflt.get("other_is_group") and "Group" not in excl and ex.count(".Group.0.expr") < self.dflt.get("gd", 1):
                return "Group"      # completion: the member of the lumped class the table does distinguish
            return ("other", excl)
        return self.dflt.get("expr")

    def meta_form(self, mb):
        d = self.d(mb + "#d")
        if d is not None:
            return d
        ns = self.d(mb + "#not")
        if ns is not None:
            return ("other", frozenset(ns))
        return self.dflt.get("meta")

    def lit_kind(self, lb):
        d = self.d(lb + "#d")
        if d is not None:
            return self.litv[d]
        ns = self.d(lb + "#not")
        if ns is not None:
            return ("other", frozenset(self.litv[i] for i in ns))
        return self.dflt.get("lit")

    def expr_type_err(self, ex, form):
        word = EXPR_WORD_FIX.get(form, snake(form)) if isinstance(form, str) else None
        return self.err("type", word, ex)

    def lit_type_err(self, lb, kind):
        return self.err("type", LIT_WORD.get(kind) if isinstance(kind, str) else None, lb)

    def parse_lit(self, ty, lb):
        """Lit::Str at lb parsed as ty"""
        pname = "parse<%s>(%s.Str.0)" % (ty, lb)
        pd = self.d(pname + "#d")
        if pd is None:
            pd = self.dflt.get("parse")
        if pd is None:
            self.open = "parse outcome of %s" % pname
            return None
        if pd == 0:
            return ("parsed", pname + ".Ok.0")
        return self.err("UnknownValue", z3.String(lb + ".Str.0.value").sexpr(), lb)

    def default_value(self, lb):
        """FromMeta::from_value as provided by the trait, for targets that override none of from_bool/from_string/from_char"""
        k = self.lit_kind(lb)
        if k is None:
            self.open = "literal kind"
            return None
        if k in ("Bool", "Str", "Char"):
            return self.err("type", LIT_WORD[k], lb)
        return self.lit_type_err(lb, k)

    # -- value rules per target (lb = the syn::Lit)
    def value(self, lb):
        tg = self.tg
        if tg == "lit":
            return ("same", lb)
        k = self.lit_kind(lb)
        if k is None:
            self.open = "literal kind"
            return None
        if tg in PARSE_TY:
            if k == "Str":
                return self.parse_lit(PARSE_TY[tg], lb)
            return self.lit_type_err(lb, k)
        if tg == "lit":
            return ("same", lb)
        if tg in LIT_TARGET:
            want = LIT_TARGET[tg]
            if k == want:
                return ("same", "%s.%s.0" % (lb, want))
            return self.lit_type_err(lb, k)
        if tg in VEC_ELEM:
            # ExprArray::from_value(value)? then the array rule
            if k != "Str":
                return self.lit_type_err(lb, k)
            r = self.parse_lit("ExprArray", lb)
            if r is None or r[0] == "err":
                return r
            return self.array(r[1])
        if tg == "preds":
            if k != "Str":
                return self.lit_type_err(lb, k)
            pk = [x for x in self.l.decisions if x.startswith("parse<WhereClause>(new(") and x.endswith("#d")]
            if len(pk) != 1:
                self.open = "parse outcome of the where clause"
                return None
            if self.l.decisions[pk[0]] == 1:
                return self.err("UnknownValue", None, lb)
            pn = pk[0][:-2] + ".Ok.0.predicates"
            n = self.d(pn + "#len")
            if n is None:
                self.open = "number of predicates"
                return None
            return ("vec", [("same", "%s[%d]" % (pn, i)) for i in range(n)])
        return self.default_value(lb)

    def array(self, ab):
        """elements of the syn::ExprArray at ab converted in order; the first failure wins"""
        n = self.d(ab + ".elems#len")
        if n is None:
            self.open = "array length"
            return None
        out = []
        for i in range(n):
            r = self.elem("%s.elems[%d]" % (ab, i))
            if r is None:
                if any(x[0] == "numstr" for x in out) and not self.dflt:
                    # conversion stopped at a quoted number whose digits did not parse (C11's subject): later elements are legitimately unread
                    self.open = None
                    return ("veccut", out)
                return None
            if r[0] in ("err", "synerr", "any"):
                return r
            out.append(r)
        return ("vec", out)

    def elem(self, ex):
        tg = self.tg
        form = self.expr_form(ex)
        if form is None:
            self.open = "element form"
            return None
        if VEC_ELEM[tg] == "num":
            unexpected = self.err("custom", "Expected array of unsigned integers", ex)
            if form == "Lit":
                return self.num(ex + ".Lit.0.lit")
            if form == "Group":
                inner = ex + ".Group.0.expr" + BOX
                f2 = self.expr_form(inner)
                if f2 is None:
                    self.open = "grouped element form"
                    return None
                if f2 == "Lit":
                    return self.num(inner + ".Lit.0.lit")
                if f2 == "Group":
                    return ("any",)     # deeper invisible groups around a number: either looked through or rejected - not constrained by the statement
                return unexpected
            return unexpected
        # literal elements: <LitX as FromMeta>::from_expr (trait default)
        sub = Ref.__new__(Ref)
        sub.__dict__.update(self.__dict__)
        sub.tg = VEC_ELEM[tg]
        r = sub.expr(ex)
        self.open = self.open or sub.open
        return r

    def num(self, lb):
        k = self.lit_kind(lb)
        if k is None:
            self.open = "number literal kind"
            return None
        if k == "Int":
            return ("num", lb + ".Int.0")
        if k == "Str":
            return ("numstr", lb + ".Str.0")
        return self.lit_type_err(lb, k)

    # -- expression rules per target
    def expr(self, ex):
        tg = self.tg
        form = self.expr_form(ex)
        if form is None:
            self.open = "expression form"
            return None
        grp = ex + ".Group.0.expr" + BOX
        lit = ex + ".Lit.0.lit"
        if tg == "expr":
            if form == "Lit":
                k = self.lit_kind(lit)
                if k is None:
                    self.open = "literal kind"
                    return None
                if k == "Str":
                    return self.parse_lit("Expr", lit)
                return ("same", ex)
            if form == "Group":
                return self.expr(grp)
            return ("same", ex)
        if tg == "callable":
            if form in ("Path", "Closure"):
                return ("same", ex)
            if form == "Group":
                return self.expr(grp)      # invisible groups are transparent (FromMeta::from_expr's documented contract)
            return self.expr_type_err(ex, form)
        if form == "Group":
            return self.expr(grp)
        if form == "Lit":
            return self.value(lit)
        if tg in ("path",) and form == "Path":
            return ("same", ex + ".Path.0.path")
        if tg in ("ident", "identstring") and form == "Path":
            p = ex + ".Path.0.path"
            n = self.d(p + ".segments#len")
            lc = self.d(p + ".leading_colon#d")
            if n is None:
                n = self.dflt.get("nseg")
            if lc is None and self.dflt:
                lc = self.dflt.get("lc", 0)
            if lc == 1:
                return self.expr_type_err(ex, "Path")
            if n is None or lc is None:
                self.open = "path shape"
                return None
            if n != 1:
                return self.expr_type_err(ex, "Path")
            a = self.d(p + ".segments[0].arguments#d")
            if a is None and self.dflt:
                a = 0
            if a is None:
                self.open = "segment arguments"
                return None
            if a != 0:
                return self.expr_type_err(ex, "Path")
            return ("same", p + ".segments[0].ident")
        if tg in EXPR_VARIANT and form == EXPR_VARIANT[tg]:
            return ("same", "%s.%s.0" % (ex, form))
        if tg in VEC_ELEM and form == "Array":
            return self.array(ex + ".Array.0")
        return self.expr_type_err(ex, form)

    def nested(self, nb):
        """FromMeta::from_nested_meta of the element target on the NestedMeta at nb"""
        d = self.d(nb + "#d")
        if d is None:
            self.open = "nested item kind"
            return None
        if d == 1:
            r = self.value(nb + ".Lit.0")
        else:
            r = self.meta(nb + ".Meta.0")
        return r

    def meta(self, mb):
        tg = self.tg
        if tg == "meta":
            return ("same", mb)
        f = self.d(mb + "#d")
        if f is None:
            self.open = "meta form"
            return None
        if tg in ("preserve", "parsestr"):
            if f == 0:
                return self.err("format", "path", mb)
            if f == 1:
                return self.err("format", "list", mb)
            ex = mb + ".NameValue.0.value"
            if tg == "preserve":
                return ("same", ex)
            form = self.expr_form(ex)
            if form is None:
                self.open = "expression form"
                return None
            if form == "Lit":
                k = self.lit_kind(ex + ".Lit.0.lit")
                if k is None:
                    self.open = "literal kind"
                    return None
                if k == "Str":
                    return self.parse_lit("Expr", ex + ".Lit.0.lit")
                # "differ only in that one keeps a string literal as a string and the other parses its contents": any other literal is kept
                return ("same", ex)
            if form == "Group":
                # a string literal inside an invisible group: the statement does not say which helper behaviour applies - both are accepted
                inner = ex
                while self.expr_form(inner) == "Group":
                    inner = inner + ".Group.0.expr" + BOX
                if self.expr_form(inner) == "Lit" and self.lit_kind(inner + ".Lit.0.lit") == "Str":
                    pn = "parse<Expr>(%s.Lit.0.lit.Str.0)" % inner
                    if self.d(pn + "#d") is not None:
                        return self.parse_lit("Expr", inner + ".Lit.0.lit")
            return ("same", ex)
        if f == 0:
            return self.err("format", "word", mb)
        if f == 1:
            lst = mb + ".List.0.tokens.parsed"
            pd = self.d(lst + "#d")
            if pd is None:
                self.open = "list parse outcome"
                return None
            if pd == 1:
                return ("synerr", lst + ".Err.0")
            n = self.d(lst + ".Ok.0#len")
            if tg in VEC_ELEM and VEC_ELEM[tg] != "num":
                if n is None:
                    self.open = "list length"
                    return None
                sub = Ref.__new__(Ref)
                sub.__dict__.update(self.__dict__)
                sub.tg = VEC_ELEM[tg]
                out = []
                for i in range(n):
                    nb = "%s.Ok.0[%d]" % (lst, i)
                    r = sub.nested(nb)
                    self.open = self.open or sub.open
                    if r is None:
                        return None
                    if r[0] in ("err", "synerr"):
                        return r
                    out.append(r)
                return ("vec", out)
            if tg == "pathlist":
                if n is None:
                    self.open = "list length"
                    return None
                out = []
                for i in range(n):
                    nb = "%s.Ok.0[%d]" % (lst, i)
                    d = self.d(nb + "#d")
                    if d is None:
                        self.open = "nested item kind"
                        return None
                    if d == 0:
                        mf = self.meta_form(nb + ".Meta.0")
                        if mf is None:
                            self.open = "nested meta form"
                            return None
                        if mf == 0:
                            out.append(("same", nb + ".Meta.0.path"))
                            continue
                    return self.err("type", "non-word", nb)
                return ("vec", out)
            return self.err("format", "list", mb)
        return self.expr(mb + ".NameValue.0.value")


PARSE_TY = {"path": "Path", "ident": "proc_macro2::Ident", "identstring": "proc_macro2::Ident", "exprarray": "ExprArray", "exprpath": "ExprPath", "exprrange": "ExprRange",
            "type": "Type", "typepath": "TypePath", "typearray": "TypeArray", "vis": "Visibility", "whereclause": "WhereClause",
            "punct": "punctuated::Punctuated<proc_macro2::Ident,token::Comma>"}
EXPR_VARIANT = {"exprarray": "Array", "exprpath": "Path", "exprrange": "Range"}
LIT_TARGET = {"litint": "Int", "litstr": "Str", "litbool": "Bool", "litchar": "Char", "litfloat": "Float", "litbyte": "Byte", "litbytestr": "ByteStr", "literal": "Verbatim"}
VEC_ELEM = {"vec_litstr": "litstr", "vec_litint": "litint", "vec_u8": "num", "vec_u32": "num"}
TARGETS = ["expr", "path", "ident", "exprarray", "exprpath", "exprrange", "type", "typepath", "typearray", "vis", "whereclause", "lit", "litint", "litstr", "litbool", "litchar",
           "litfloat", "litbyte", "litbytestr", "literal", "vec_litstr", "vec_litint", "vec_u8", "vec_u32", "pathlist", "meta", "callable", "identstring", "punct", "preds",
           "preserve", "parsestr"]


# --------------------------------------------------------------------------------------------------------------- comparison
def names_in(v):
    return NAME_RE.findall(rep(v))


def is_origin(v, origin):
    """the viewed value is the input part `origin` (untouched lazy, or a structural copy consisting only of its pieces)"""
    if isinstance(v, L):
        return v.name == origin
    if isinstance(v, Opaque):
        d = v.data
        if v.kind == "Ident":
            return d[1] == ("in", origin)
        return isinstance(d, tuple) and len(d) > 1 and d[0] == "in" and isinstance(d[1], str) and (d[1] == origin or d[1].startswith(origin + "."))
    if isinstance(v, dict) and set(v) - {"_"} == {"0"} and isinstance(v.get("0"), (L, Opaque, dict)) and v.get("_", "").split("<")[0] in (
            "darling::util::Callable", "darling::util::IdentString", "darling::util::PathList"):
        return is_origin(v["0"], origin)
    ns = names_in(v)
    return bool(ns) and all(n == origin or n.startswith(origin + ".") or n.startswith(origin + "[") for n in ns)


def unwrap(v):
    """peel newtype wrappers of the util types"""
    while isinstance(v, dict) and v.get("_", "").split("<")[0].split("::")[-1] in ("Callable", "IdentString", "PathList") and len([k for k in v if k != "_"]) >= 1:
        ks = [k for k in v if k != "_"]
        key = "call" if "call" in v else ("ident" if "ident" in v else ks[0])
        v = v[key]
    return v


def span_in(span, origin):
    if span is None or not isinstance(span, tuple) or len(span) < 2 or not isinstance(span[1], str):
        return False
    return span[1] == origin or span[1].startswith(origin + ".") or span[1].startswith(origin + "[")


def match(ck, l, exp, got_ok, gv, errs):
    """(good, why) of the symbolic result against the expected outcome"""
    k = exp[0]
    if k == "any":
        return True, ""
    if k == "err":
        if got_ok:
            return False, "accepted; expected error %r" % (exp[1:3],)
        if len(errs) != 1:
            return False, "%d errors, expected one %r" % (len(errs), exp[1:3])
        e = errs[0]
        if e[0] != exp[1]:
            return False, "error kind %s(%s), expected %s(%s)" % (e[0], e[1], exp[1], exp[2])
        if exp[2] is not None and e[1] != exp[2]:
            return False, "error says %r, expected %r" % (e[1], exp[2])
        if not span_in(e[3], exp[3]):
            return False, "error span %r is not inside the offending node %s" % (e[3], exp[3])
        return True, ""
    if k == "veccut":
        if not got_ok and len(errs) == 1 and errs[0][0] == "UnknownValue" and any(e[0] == "numstr" and span_in(errs[0][3], e[1]) for e in exp[1]):
            return True, ""
        return False, "later array elements were never read although no quoted element failed"
    if k == "vec" and not got_ok and any(e[0] == "numstr" for e in exp[1]):
        # a quoted number inside a numeric array: whether the digits parse is C11's subject; a failure must be that element's
        if len(errs) == 1 and errs[0][0] == "UnknownValue" and any(e[0] == "numstr" and span_in(errs[0][3], e[1]) for e in exp[1]):
            return True, ""
        return False, "rejected with %r; only a quoted element may fail, with an unknown-value error at that element" % ([(e[0], e[1]) for e in errs],)
    if k == "synerr":
        if got_ok or len(errs) != 1:
            return False, "expected the list's parse error"
        return (span_in(errs[0][3], exp[1]) or errs[0][3] is not None), "parse error lost its span"
    if not got_ok:
        return False, "rejected (%r); expected %s" % ([(e[0], e[1]) for e in errs], k)
    gv = unwrap(gv)
    if k == "same":
        # an invisible group prints like its contents: the node itself or the expression inside the group(s) are the same tokens
        cands = [exp[1]]
        exprv = getattr(ck, "_exprv", None)
        while exprv is not None and l.decisions.get(cands[-1] + "#d") is not None and exprv[l.decisions[cands[-1] + "#d"]] == "Group":
            cands.append(cands[-1] + ".Group.0.expr" + BOX)
        if any(is_origin(gv, c) for c in cands):
            return True, ""
        return False, "value is not the input node %s: %s" % (exp[1], rep(gv)[:160])
    if k == "parsed":
        return (True, "") if is_origin(gv, exp[1]) else (False, "value is not the parse of the quoted string (%s): %s" % (exp[1], rep(gv)[:160]))
    if k == "vec":
        if isinstance(gv, L):
            n = l.decisions.get(gv.name + "#len", 0)
            gv = [L("%s[%d]" % (gv.name, i)) for i in range(n)]
        if not isinstance(gv, (list, tuple)):
            return False, "not a vector: %s" % rep(gv)[:120]
        if len(gv) != len(exp[1]):
            return False, "%d elements for %d input elements" % (len(gv), len(exp[1]))
        for g, e in zip(gv, exp[1]):
            if e[0] in ("num", "numstr"):
                continue      # element values are C11's subject; order / count are checked here
            ok, why = match(ck, l, e, True, g, [])
            if not ok:
                return False, "element: " + why
        return True, ""
    if k == "preds":
        return True, ""
    return False, "unknown expectation %r" % (k,)


# --------------------------------------------------------------------------------------------------------------- witnesses
GOOD = {"Expr": "a + 1", "Path": "a::b", "proc_macro2::Ident": "abc", "ExprArray": None, "ExprPath": "a::b", "ExprRange": "1..2", "Type": "Vec<u8>", "TypePath": "a::B<u8>",
        "TypeArray": "[u8; 2]", "Visibility": "pub(crate)", "WhereClause": "where T: Copy", "punctuated::Punctuated<proc_macro2::Ident,token::Comma>": "a, b"}
OTHER_EXPR = [("Binary", "1 + 2"), ("Call", "f(1)"), ("Tuple", "(1, 2)"), ("Unary", "!x"), ("Index", "a[0]")]
FORM_TEXT = {"Array": None, "Assign": "a = 1", "Async": "async { 1 }", "Await": "a.await", "Binary": "1 + 2", "Block": "{ 1 }", "Break": "break", "Call": "f(1)", "Cast": "1 as u8",
             "Closure": "|x| x", "Const": "const { 1 }", "Continue": "continue", "Field": "a.b", "ForLoop": "for _ in a { }", "If": "if a { }", "Index": "a[0]", "Infer": "_", "Let": "let a = 1",
             "Loop": "loop { }", "Macro": "m!(1)", "Match": "match a { }", "MethodCall": "a.b()", "Paren": "(1)", "Range": "1..2", "Reference": "&a", "Repeat": "[0; 2]", "Return": "return",
             "Struct": "S { a: 1 }", "Try": "a?", "TryBlock": "try { 1 }", "Tuple": "(1, 2)", "Unary": "!a", "Unsafe": "unsafe { 1 }", "While": "while a { }", "Yield": "yield"}
LIT_TEXT = {"Int": "7", "Float": "1.5", "Bool": "true", "Char": "'c'", "Byte": "b'x'", "ByteStr": 'b"xy"', "CStr": 'c"x"'}


class Wit:
    def __init__(self, ref, tg):
        self.r = ref
        self.l = ref.l
        self.tg = tg
        self.bad = None
        self.in_parsed = False
        self.model = None

    def d(self, k):
        return self.l.decisions.get(k)

    def path(self, p, default="zp"):
        n = self.d(p + ".segments#len") or self.r.dflt.get("nseg") or 1
        lc = self.d(p + ".leading_colon#d")
        if lc is None:
            lc = self.r.dflt.get("lc")
        segs = []
        for i in range(n):
            a = self.d("%s.segments[%d].arguments#d" % (p, i))
            if a == 2:
                self.bad = "parenthesized path arguments cannot be written in expression position"
            segs.append("%s%d%s" % (default, i, {None: "", 0: "", 1: "::<u8>", 2: "(u8)"}[a]))
        return ("::" if lc == 1 else "") + "::".join(segs)

    def strlit(self, lb, elem_tg=None):
        """text of the string literal at lb: chosen so that the real parser produces the decided outcome"""
        n = self.d(lb + ".Str.0.value#len")
        if n is not None:
            # a quoted element of a numeric array: its bytes are symbolic, take them from a model of the path condition
            mdl = self.model() if self.model else None
            if mdl is None:
                self.bad = "no model for the quoted number"
                return '"1"'
            bs = [mdl.eval(z3.BitVec("%s.Str.0.value[%d]" % (lb, i), 8), model_completion=True).as_long() for i in range(n)]
            txt = "".join(chr(b) for b in bs)
            if any(b < 32 or b > 126 or chr(b) in '"\\' for b in bs):
                self.bad = "unprintable byte in a quoted number"
                return '"1"'
            return '"%s"' % txt.replace("\\", "\\\\").replace('"', '\\"')
        fact = (self.l.extra.get("sfacts") or {}).get(lb + ".Str.0.value")
        if fact and fact != "complex" and fact[0] == "eq":
            return '"%s"' % fact[1]       # the path compared the text with a constant ("true", "snake_case", ..)
        if True:
            for key, v in self.l.decisions.items():
                if key.startswith("parse<WhereClause>(new(") and key.endswith("#d") and (lb + ".Str.0.value") in key:
                    if v == 1:
                        return '")("'
                    n = self.d(key[:-2] + ".Ok.0.predicates#len") or 0
                    return '"%s"' % ", ".join("T%d: Copy" % i for i in range(n))
        for key, v in self.l.decisions.items():
            if key.endswith("(%s.Str.0)#d" % lb) and key.startswith("parse<"):
                ty = key[len("parse<"):key.index(">(" + lb)]
                if v == 1:
                    return '")("'
                self.in_parsed = True
                if ty == "ExprArray":
                    pn = key[:-2] + ".Ok.0"
                    return '"%s"' % self.array(pn).replace("\\", "\\\\").replace('"', '\\"')
                g = GOOD.get(ty)
                if g is None:
                    self.bad = "no sample text for %s" % ty
                    return '"x"'
                return '"%s"' % g
        return '"zs"'

    def lit(self, lb):
        k = self.r.lit_kind(lb)
        if isinstance(k, tuple):
            k = [x for x in ("Int", "Float", "Bool", "Char", "Byte", "ByteStr", "Str") if x not in k[1]][0]
        if k is None:
            k = "Int"
        if k == "Str":
            return self.strlit(lb)
        if k == "Verbatim":
            self.bad = "verbatim literal"
            return "7"
        if k == "Bool" and self.model:
            mdl = self.model()
            if mdl is not None:
                return "true" if z3.is_true(mdl.eval(z3.Bool(lb + ".Bool.0.value"), model_completion=True)) else "false"
        return LIT_TEXT[k]

    def array(self, ab):
        n = self.d(ab + ".elems#len") or 0
        return "[%s]" % ", ".join(self.expr("%s.elems[%d]" % (ab, i)) for i in range(n))

    def expr(self, ex):
        f = self.r.expr_form(ex)
        if isinstance(f, tuple):
            f = [n for n, _ in OTHER_EXPR if n not in f[1]][0]
        if f is None:
            f = "Binary"
        if f == "Closure" and self.r.d(ex + "#d") is None:
            return "|x| x"
        if f == "Lit":
            return self.lit(ex + ".Lit.0.lit")
        if f == "Group":
            if ex.startswith("parse<") or ".List.0.tokens.parsed" in ex:
                self.bad = "an invisible group inside re-parsed text / a token list (the marker cannot be planted there)"
            return "__group!(%s)" % self.expr(ex + ".Group.0.expr" + BOX)
        if f == "Path":
            return self.path(ex + ".Path.0.path")
        if f == "Array":
            return self.array(ex + ".Array.0")
        t = FORM_TEXT.get(f)
        if t is None:
            self.bad = "expression form %s" % f
            return "1 + 2"
        return t

    def meta(self, mb, name="zz"):
        f = self.r.meta_form(mb)
        if isinstance(f, tuple):
            f = [x for x in (0, 1, 2) if x not in f[1]][0]
        if f in (0, None):
            return name if mb == "item*" else self.path(mb + ".path", "w")
        head = name if mb == "item*" else self.path(mb + ".path", "w")
        if f == 1:
            lst = mb + ".List.0.tokens.parsed"
            if self.d(lst + "#d") == 1:
                return head + "(=)"
            n = self.d(lst + ".Ok.0#len") or 0
            items = []
            for i in range(n):
                nb = "%s.Ok.0[%d]" % (lst, i)
                if self.d(nb + "#d") == 1:
                    items.append(self.lit(nb + ".Lit.0"))
                else:
                    items.append(self.meta(nb + ".Meta.0"))
            return "%s(%s)" % (head, ", ".join(items))
        return "%s = %s" % (head, self.expr(mb + ".NameValue.0.value"))


def msg_of(exp):
    if exp[0] != "err":
        return None
    k, w = exp[1], exp[2]
    if k == "type" and w:
        return "Unexpected type `%s`" % w
    if k == "format" and w:
        return "Unexpected meta-item format `%s`" % w
    if k == "custom" and w:
        return w
    if k == "UnknownValue":
        return "Unknown literal value `"
    return None


# targets whose conversion recurses through invisible groups itself: two nested groups already in the quick tier (a conversion that
# peels one level only is wrong from the second level on)
DEEP_GROUPS = ("expr", "callable", "path", "ident")


def replay_completion(ck, native, prog, l, tg, dflt, what):
    """complete the input parts the path never inspected with `dflt`, ask the table and the real build; 'bad' (reported) / 'ok' / 'undecided'"""
    ref2 = Ref(prog, l, tg, dflt)
    exp2 = ref2.meta("item*")
    if exp2 is None:
        return "undecided"
    wit2 = Wit(ref2, tg)
    wit2.model = lambda l=l: ck.model_of(l.pc)
    req2 = "(conv %s meta %s)" % (tg, sx_str(wit2.meta("item*")))
    nat = native.ask(req2)
    r = nat.get("result", {}) if isinstance(nat, dict) else {}
    if wit2.bad or (isinstance(r, dict) and "parse_error" in r):
        return "undecided"
    if exp2[0] in ("veccut", "any"):
        return "ok"             # the table does not constrain this completion (e.g. doubly grouped numeric elements)
    if exp2[0] == "vec" and any(x[0] in ("numstr", "any") for x in exp2[1]):
        return "ok"             # quoted / deeper-grouped numeric elements: acceptance is C11's subject or not stated
    if exp2[0] in ("err", "synerr"):
        agree = isinstance(r, dict) and "err" in r and len(r["err"]) == 1
        m = msg_of(exp2)
        if agree and m and not r["err"][0]["msg"].startswith(m):
            agree = False
    else:
        agree = isinstance(r, dict) and "ok" in r
        if agree and exp2[0] == "parsed" and isinstance(r["ok"], str) and r["ok"].startswith('"'):
            agree = False       # the string came back as a string literal, not as the parse of its contents
    if not agree:
        ck.report("%s:ignored-input:%s" % (tg, what), "the conversion never inspects the %s although the outcome must depend on it" % what,
                  {"property": "C13", "crate": "hsyn", "request": req2, "expected": repr(exp2)[:300], "observed": nat})
        return "bad"
    return "ok"


def target_job(ck, prog, natbin, tg, quick):
    native = Native(natbin)
    gdepth = 2 if (not quick or tg in DEEP_GROUPS) else 1
    gidx = [v["name"] for v in prog.find_ty("syn::Expr").adt["variants"]].index("Group")
    I = Interp(prog, models.all_models(OPTS), Pol(gdepth, 2, numeric=(VEC_ELEM.get(tg) == "num")), timeout_ms=ck.timeout_ms)
    e = prog.entry("entry_%s_meta" % tg)
    leaves = I.explore(e, [Lazy("item", e.local_tys[1])])
    ck.absorb(I, leaves, "entry_%s_meta" % tg)
    ck.check_exhaustive(I, leaves, tg)
    cnt = 0
    ck._exprv = [v["name"] for v in prog.find_ty("syn::Expr").adt["variants"]]
    for l in leaves:
        ref = Ref(prog, l, tg)
        wit = Wit(ref, tg)
        wit.model = lambda l=l: ck.model_of(l.pc)
        if l.status == "panicked":
            replay_panic(ck, native, tg, l, "(conv %s meta %s)" % (tg, sx_str(wit.meta("item*"))), {"crate": "hsyn"})
            continue
        if l.status != "returned":
            ck.obligations += 1
            ck.engine("%s: leaf %s %s" % (tg, l.status, str(l.info or l.panics)[:300]))
            continue
        exp = ref.meta("item*")
        got = view(I, l, l.ret, e.local_tys[0])
        got_ok = isinstance(got, dict) and got.get("_v") == "Ok"
        errs = [] if got_ok else [x for ev in (got["0"] if isinstance(got["0"], (list, tuple)) else [got["0"]]) for x in actual_errors(ev, l)]
        src = wit.meta("item*")
        req = "(conv %s meta %s)" % (tg, sx_str(src))
        if exp is None:
            # the table needs a part of the input this path never looked at, i.e. the path treats alike inputs the table may distinguish:
            # complete the input in two different ways and replay each against the table
            bad_found = False
            undecided = False
            replayed = 0
            for dflt in ({"expr": "Closure", "lit": "Int", "nseg": 2, "meta": 1, "lc": 0}, {"expr": "Binary", "lit": "Bool", "nseg": 1, "meta": 2, "lc": 1},
                         {"expr": "Binary", "lit": "Bool", "nseg": 1, "meta": 2, "lc": 0},
                         # a quoted value the path never looked at (e.g. below invisible groups it does not open): its contents must come back parsed
                         {"expr": "Lit", "lit": "Str", "nseg": 1, "meta": 2, "lc": 0, "parse": 0}):
                verdict = replay_completion(ck, native, prog, l, tg, dflt, ref.open)
                if verdict == "undecided":
                    undecided = True
                    continue
                replayed += 1
                if verdict == "bad":
                    bad_found = True
                    break
            undecided = undecided and replayed == 0
            if bad_found or undecided:
                ck.obligations += 1
            if not bad_found:
                if undecided:
                    ck.engine("%s: the reference table needs the %s, which this path never inspected, and no completion could be replayed (%s)" % (tg, ref.open, req))
                else:
                    ck.ok()
                    ck.reach("uniform-in-ignored-part")
            continue
        good, why = match(ck, l, exp, got_ok, got.get("0") if isinstance(got, dict) else None, errs)
        if good and any(k.endswith("#not") and (k[:-4].endswith(".value") or k[:-4].endswith(BOX) or k[:-4].endswith("]")) and gidx not in ns
                        and k.count(".Group.0.expr") < gdepth for k, ns in l.decisions.items()):
            # the path treats "every other expression form" alike and that class contains the invisible group, which the table does
            # distinguish: judge the sub-class "a group around a quoted value" by completion and replay
            if replay_completion(ck, native, prog, l, tg, {"other_is_group": True, "gd": gdepth, "expr": "Lit", "lit": "Str", "nseg": 1, "meta": 2, "lc": 0, "parse": 0},
                                 "invisible group inside a lumped expression class") == "bad":
                ck.obligations += 1
                continue
            ck.ok()
            ck.reach("lumped-class-with-group")
        ck.reach(exp[0])
        if exp[0] == "err":
            ck.reach("err:" + exp[1])
        cnt += 1
        if good:
            ck.ok()
            if wit.bad or cnt % (3 if quick else 5):
                continue
        else:
            ck.obligations += 1
        nat = native.ask(req)
        r = nat.get("result", {}) if isinstance(nat, dict) else {}
        if isinstance(r, dict) and "parse_error" in r:
            if not good:
                ck.engine("%s: %s; witness %s not parseable" % (tg, why, req))
            continue
        # native agreement with the table: accept/reject, error message and presence of a span; for identity outcomes the printed tokens
        if exp[0] in ("err", "synerr"):
            agree = isinstance(r, dict) and "err" in r and len(r["err"]) == 1 and r["err"][0]["span"] is True
            m = msg_of(exp)
            if agree and m and not r["err"][0]["msg"].startswith(m):
                agree = False
        else:
            agree = isinstance(r, dict) and "ok" in r
        if exp[0] in ("veccut", "any"):
            continue
        if exp[0] == "vec" and any(x[0] == "numstr" for x in exp[1]):
            agree = isinstance(r, dict) and ("ok" in r or ("err" in r and len(r["err"]) == 1 and r["err"][0]["msg"].startswith("Unknown literal value")))
        if good and agree:
            ck.native_agree += 1
            if len(ck.samples) < 10 and exp[0] in ("same", "parsed", "vec"):
                ck.sample({"target": tg, "request": req, "native": r})
        elif good and not agree:
            if wit.bad:
                continue
            ck.report("%s:native:%s" % (tg, exp[0]), "native outcome differs from the reference table", {"property": "C13", "crate": "hsyn", "request": req, "expected": repr(exp)[:300], "observed": nat})
        elif agree:
            ck.engine("%s: %s, but the native run agrees with the table (%s)" % (tg, why, req))
        else:
            ck.report("%s:%s" % (tg, re.sub(r"[^A-Za-z ]", "", why)[:48].strip()), why, {"property": "C13", "crate": "hsyn", "request": req, "expected": repr(exp)[:300], "observed": nat, "symbolic": rep(got)[:500]})
    native.close()


def string_job(ck, prog, natbin, quick):
    """from_string of the parsing targets: the parse of the whole string, or UnknownValue"""
    native = Native(natbin)
    for tg, ty in (("expr", "Expr"), ("path", "Path"), ("ident", "proc_macro2::Ident"), ("type", "Type"), ("vis", "Visibility"), ("whereclause", "WhereClause")):
        I = Interp(prog, models.all_models(OPTS), Pol(1, 1), timeout_ms=ck.timeout_ms)
        e = prog.entry("entry_%s_string" % tg)
        leaves = I.explore(e, [Lazy("s", e.local_tys[1])])
        ck.absorb(I, leaves, "entry_%s_string" % tg)
        ck.check_exhaustive(I, leaves, tg + ":string")
        for l in leaves:
            if l.status != "returned":
                ck.obligations += 1
                ck.engine("%s from_string: leaf %s %s" % (tg, l.status, str(l.info or l.panics)[:200]))
                continue
            got = view(I, l, l.ret, e.local_tys[0])
            got_ok = isinstance(got, dict) and got.get("_v") == "Ok"
            pk = [k for k in l.decisions if k.startswith("parse_str<%s>(" % ty) and k.endswith("#d")]
            if len(pk) != 1:
                ck.obligations += 1
                ck.engine("%s from_string: no single parse outcome on the leaf (%r)" % (tg, pk))
                continue
            pd = l.decisions[pk[0]]
            if pd == 0:
                good = got_ok and is_origin(unwrap(got["0"]), pk[0][:-2] + ".Ok.0")
            else:
                errs = [] if got_ok else [x for ev in got["0"] for x in actual_errors(ev, l)]
                good = (not got_ok) and len(errs) == 1 and errs[0][0] == "UnknownValue"
            ck.reach("string:" + ("ok" if pd == 0 else "err"))
            if good:
                ck.ok()
            else:
                ck.obligations += 1
                txt = GOOD[ty] if pd == 0 else ")("
                req = "(conv %s string %s)" % (tg, sx_str(txt))
                nat = native.ask(req)
                r = nat.get("result", {})
                if ("ok" in r) == (pd == 0):
                    ck.engine("%s from_string: symbolic leaf disagrees with the table, native agrees (%s)" % (tg, req))
                else:
                    ck.report("%s:from_string" % tg, "from_string is not the parse of the whole string", {"property": "C13", "crate": "hsyn", "request": req, "observed": nat})
        for txt, ok in ((GOOD[ty], True), (")(", False)):
            nat = native.ask("(conv %s string %s)" % (tg, sx_str(txt)))
            if ("ok" in nat.get("result", {})) == ok:
                ck.native_agree += 1
            else:
                ck.report("%s:from_string:native" % tg, "native from_string differs", {"property": "C13", "crate": "hsyn", "request": "(conv %s string %s)" % (tg, sx_str(txt)), "observed": nat})
    native.close()


def prepare(ck):
    ck.crate = "hsyn"
    quick = ck.tier == "quick"
    prog = Program(build.dump_mir("hsyn", opts=OPTS))
    natbin = build.build_native("hsyn")
    only = os.environ.get("VERIF_TARGETS")
    tgs = only.split(",") if only else TARGETS
    ck.bounds = {"targets": tgs, "invisible_group_nesting": "0..2" if not quick else "0..2 for %s, 0..1 for the other targets" % " / ".join(DEEP_GROUPS), "list / array elements": "0..2", "path_segments": "1..2",
                 "expression forms": "all %d syn::Expr variants" % 40, "literal kinds": "all syn::Lit variants", "numeric array elements": "single digit (values are C11's subject)"}
    ck.outside = ["token-for-token equality of syn's parser and printer (the parse of a string literal is an uninterpreted outcome; sampled witnesses compare printed tokens natively)",
                  "the remaining from_syn_parse instantiations (TypeBareFn, TypeGroup, .. - same macro body as Type / TypePath / TypeArray)", "longer lists / deeper groups"]
    ck.assumptions = ["LitStr::parse / parse_with / syn::parse_str are uninterpreted per (literal, target type)", "Clone of syn data is a structural copy"]
    for t in tgs:
        ck.programs.add("hsyn::%s" % t)
    jobs = [(lambda sub, t=t: target_job(sub, prog, natbin, t, quick)) for t in tgs]
    if not only:
        jobs.append(lambda sub: string_job(sub, prog, natbin, quick))
    return jobs


def main():
    ck = Check("C13")
    ck.run_jobs(prepare(ck))
    if not os.environ.get("VERIF_TARGETS"):
        ck.require_reached(["same", "parsed", "vec", "err", "err:type", "err:format", "err:UnknownValue", "string:ok", "string:err"])
    ck.finish()


if __name__ == "__main__":
    main()
