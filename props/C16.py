"""C16 - magic fields and body conversion mirror the input element faithfully.

The derive-generated from_derive_input / from_field / from_variant / from_type_param of receivers declaring magic fields and a
`data` / `fields` member, `ast::Data::try_from`, `ast::Fields::try_from` run on a lazily initialised symbolic element;
every magic member must be the corresponding input part *by identity of origin*, the body must have the same kind, style,
length and order, and conversion fails exactly when some field / variant fails (all reported, named fields located) or for a union."""
import os
import re
import sys
import z3

sys.path.insert(0, os.path.dirname(os.path.dirname(os.path.abspath(__file__))))
from vlib import build
from vlib.prop import Check, Native, sx_str
from vlib.view import view, L
from mirsym import Program, Interp, models, Lazy, Opaque, syn_models, harness_models  # noqa: F401
from props import recv_spec as S
from props.recv_common import Oracle, E, flat_errors, match_errors, value_eqs, OPTS, replay_panic
from props.C08 import merged_items, SPECS
from props.C12 import rep

ORIGIN_RE = re.compile(r"x\*[A-Za-z0-9_\.\[\]\*]*")


class Pol(syn_models.SynPolicy):
    def __init__(self, NF, M, only=None, NV=None, MV=None):
        super().__init__()
        self.MV = M if MV is None else MV
        self.NV = NF if NV is None else NV
        self.NF = NF
        self.M = M
        self.only = only     # restrict the body kind (syn::Data variant names) - used to afford two attributed fields

    def variants(self, I, st, lz, t):
        if t.adt and t.adt["name"].endswith("error::kind::ErrorKind"):
            return list(range(10))
        if lz.name.endswith(".meta.path.leading_colon"):
            return [0]
        if self.only and lz.name == "x*.data":
            return [i for i, v in enumerate(t.adt["variants"]) if v["name"] in self.only]
        # syn's own invariants: named fields have an identifier, tuple fields have none
        if ".named[" in lz.name and lz.name.endswith("].ident"):
            return [1]
        if ".unnamed[" in lz.name and lz.name.endswith("].ident"):
            return [0]
        return syn_models.SynPolicy.variants(self, I, st, lz, t)

    def len_bounds(self, I, st, name, t):
        if name == "x*.attrs":
            return (0, 0)
        if re.search(r"\.variants\[\d+\]\.attrs$", name):
            return (0, self.MV)
        if name.endswith(".attrs"):
            return (0, self.M)
        if name.endswith(".variants"):
            return (0, self.NV)
        if name.endswith(".named") or name.endswith(".unnamed"):
            return (0, self.NF)
        if name.endswith(".segments"):
            return (1, 1)
        if name.endswith(".parsed.Ok.0"):
            return (0, 1)
        if name.endswith(".locations"):
            return (0, 0)
        return (0, 1)


def is_input(v, origin):
    """the viewed value is the input part `origin` (untouched, or a structural copy made only of its pieces)"""
    if isinstance(v, L):
        return v.name == origin
    if isinstance(v, Opaque):
        d = v.data
        if v.kind == "Ident":
            return d[1] == ("in", origin)
        return isinstance(d, tuple) and len(d) > 1 and isinstance(d[1], str) and d[1].startswith(origin)
    names = ORIGIN_RE.findall(rep(v))
    return bool(names) and all(n.startswith(origin) for n in names)


class Exp:
    def __init__(self, ck, l):
        self.ck = ck
        self.l = l
        self.open = False
        self.ignored = []     # attribute vectors of fields / variants that must be converted but were never inspected on this leaf

    def attr_value(self, at, rn):
        """('ok', {'a': ...}, forwarded) | ('err', [E], None) for the non-magic members fed by the attribute vector `at`"""
        if self.l.decisions.get(at + "#len") is None:
            self.ignored.append(at)
        mi = merged_items(self.ck, self.l, at, SPECS[rn])
        if mi is None:
            self.open = True
            return ("open", None, None)
        items, errs, fwd, shape = mi
        orc = Oracle(self.ck, self.l)
        kind, val = orc.expect_struct(SPECS[rn]["r"], items)
        if kind in ("none", "unsupported") or orc.undetermined:
            self.open = True
            return ("open", None, None)
        if kind == "ok" and errs:
            return ("err", list(errs), None)
        if kind == "err":
            return ("err", list(errs) + val, None)
        return ("ok", val, fwd)

    def field(self, base):
        kind, val, fwd = self.attr_value(base + ".attrs", "F1")
        if kind != "ok":
            return (kind, val)
        return ("ok", {"ident": ("input", base + ".ident"), "ty": ("input", base + ".ty"), "vis": ("input", base + ".vis"), "attrs": ("fwd", fwd), "a": val["a"]})

    def fields(self, base):
        """ast::Fields<F1> from the syn::Fields at base"""
        d = self.l.decisions.get(base + "#d")
        if d is None:
            self.open = True
            return ("open", None)
        if d == 2:
            return ("ok", {"style": "Unit", "fields": []})
        lst = base + (".Named.0.named" if d == 0 else ".Unnamed.0.unnamed")
        n = self.l.decisions.get(lst + "#len")
        if n is None:
            self.open = True
            return ("open", None)
        out, errs = [], []
        for i in range(n):
            fb = "%s[%d]" % (lst, i)
            kind, val = self.field(fb)
            if kind == "open":
                return ("open", None)
            if kind == "ok":
                out.append(val)
            else:
                for e in val:
                    if d == 0:
                        e.at(z3.String(fb + ".ident.Some.0.sym").sexpr())
                errs.extend(val)
        if errs:
            return ("err", errs)
        return ("ok", {"style": "Struct" if d == 0 else "Tuple", "fields": out})

    def variant(self, base):
        kind, val, fwd = self.attr_value(base + ".attrs", "F1")   # V1 reads `my(a = ..)` like F1 (no forwarding)
        if kind == "open":
            return ("open", None)
        # a failing attribute layer stops before the body is converted (errors of one layer at a time)
        if kind == "err":
            return ("err", val)
        fk, fv = self.fields(base + ".fields")
        if fk == "open":
            return ("open", None)
        if fk == "err":
            return ("err", fv)
        dd = self.l.decisions.get(base + ".discriminant#d")
        disc = None if dd == 0 else (("input", base + ".discriminant.Some.0.1") if dd == 1 else ("either", base + ".discriminant"))
        return ("ok", {"ident": ("input", base + ".ident"), "discriminant": disc, "fields": fv, "a": val["a"]})

    def data(self, base):
        d = self.l.decisions.get(base + "#d")
        if d is None:
            self.open = True
            return ("open", None)
        if d == 2:
            return ("err", [E("custom", "Unions are not supported")])
        if d == 0:
            k, v = self.fields(base + ".Struct.0.fields")
            return (k, {"kind": "Struct", "fields": v} if k == "ok" else v)
        n = self.l.decisions.get(base + ".Enum.0.variants#len")
        if n is None:
            self.open = True
            return ("open", None)
        out, errs = [], []
        for i in range(n):
            k, v = self.variant("%s.Enum.0.variants[%d]" % (base, i))
            if k == "open":
                return ("open", None)
            if k == "ok":
                out.append(v)
            else:
                errs.extend(v)
        if errs:
            return ("err", errs)
        return ("ok", {"kind": "Enum", "variants": out})


def check_field(ck, l, exp, got):
    if not is_input(got["ty"], exp["ty"][1]):
        return False, "ty is not the input field's type (%s)" % rep(got["ty"])[:100]
    if not is_input(got["vis"], exp["vis"][1]):
        return False, "vis is not the input field's visibility"
    gi = got["ident"]
    if isinstance(gi, dict) and gi.get("_v") == "Some":
        if not is_input(gi["0"], exp["ident"][1] + ".Some.0"):
            return False, "ident is not the input field's identifier"
    elif isinstance(gi, dict) and gi.get("_v") == "None":
        if ".named[" in exp["ident"][1]:
            return False, "named field lost its identifier"
    elif not is_input(gi, exp["ident"][1]):
        return False, "ident differs"
    ga = got["attrs"]
    fwd = exp["attrs"][1]
    if isinstance(ga, L):
        n = l.decisions.get(ga.name + "#len", 0)
        ga = [L("%s[%d]" % (ga.name, i)) for i in range(n)]
    if len(ga) != len(fwd) or any(b not in rep(g) for g, b in zip(ga, fwd)):
        return False, "forwarded attributes differ from %r" % (fwd,)
    eqs = []
    if not value_eqs(exp["a"], got["a"], eqs):
        return False, "attribute-fed member `a` has the wrong shape"
    if eqs:
        okv, _ = ck.smt_valid(l.pc, z3.And(eqs))
        if not okv:
            return False, "attribute-fed member `a` has the wrong value"
    return True, ""


def check_fields(ck, l, exp, got):
    if not isinstance(got, dict) or "fields" not in got:
        return False, "not a field list: %s" % rep(got)[:100]
    st = got["style"]
    sname = st.get("_v") if isinstance(st, dict) else str(st)
    if sname != exp["style"]:
        return False, "style %s, input body has %s" % (sname, exp["style"])
    gf = got["fields"]
    if isinstance(gf, L):
        gf = []
    if len(gf) != len(exp["fields"]):
        return False, "%d converted fields for %d input fields" % (len(gf), len(exp["fields"]))
    for g, e in zip(gf, exp["fields"]):
        ok, why = check_field(ck, l, e, g)
        if not ok:
            return False, why
    return True, ""


def check_variant(ck, l, exp, got):
    if not is_input(got["ident"], exp["ident"][1]):
        return False, "variant ident is not the input's"
    gd = got["discriminant"]
    ed = exp["discriminant"]
    if ed is None:
        if not (isinstance(gd, dict) and gd.get("_v") == "None"):
            return False, "discriminant invented"
    elif ed[0] == "input":
        if not (isinstance(gd, dict) and gd.get("_v") == "Some" and is_input(gd["0"], ed[1])):
            return False, "discriminant is not the input's expression: %s" % rep(gd)[:120]
    ok, why = check_fields(ck, l, exp["fields"], got["fields"])
    if not ok:
        return False, why
    eqs = []
    if not value_eqs(exp["a"], got["a"], eqs):
        return False, "member `a` wrong shape"
    if eqs and not ck.smt_valid(l.pc, z3.And(eqs))[0]:
        return False, "member `a` wrong value"
    return True, ""


def src_fields(l, base, ex):
    d = l.decisions.get(base + "#d")
    if d == 2 or d is None:
        return ""
    lst = base + (".Named.0.named" if d == 0 else ".Unnamed.0.unnamed")
    n = l.decisions.get(lst + "#len", 0)
    parts = []
    for i in range(n):
        fb = "%s[%d]" % (lst, i)
        parts.append("%s%s: u%d" % (src_attrs(l, fb + ".attrs", ex), "f%d" % i, 8 << i) if d == 0 else "%su%d" % (src_attrs(l, fb + ".attrs", ex), 8 << i))
    return " { %s }" % ", ".join(parts) if d == 0 else "(%s)" % ", ".join(parts)


def src_attrs(l, at, ex=None):
    if ex is not None and at in ex.ignored:
        return "#[my(=)] "     # completion of a never-inspected vector: an attribute that must produce one more error
    m = l.decisions.get(at + "#len", 0)
    out = []
    for j in range(m):
        base = "%s[%d]" % (at, j)
        f = (l.extra.get("sfacts") or {}).get(base + ".meta.path.segments[0].ident.sym")
        name = f[1] if (f and f != "complex" and f[0] == "eq") else "zq"
        form = l.decisions.get(base + ".meta#d")
        if name == "doc":
            out.append('#[doc = "d"] ')
            continue
        if name != "my":
            out.append("#[%s] " % name)
            continue
        if form == 0:
            out.append("#[my] ")
        elif form == 2:
            out.append('#[my = "v"] ')
        else:
            pd = l.decisions.get(base + ".meta.List.0.tokens.parsed#d")
            if pd == 1:
                out.append("#[my(=)] ")
            else:
                n = l.decisions.get(base + ".meta.List.0.tokens.parsed.Ok.0#len", 0)
                items = []
                for i in range(n):
                    ib = "%s.meta.List.0.tokens.parsed.Ok.0[%d]" % (base, i)
                    if l.decisions.get(ib + "#d") == 1:
                        items.append('"lit"')
                        continue
                    nf = (l.extra.get("sfacts") or {}).get(ib + ".Meta.0.path.segments[0].ident.sym")
                    nm = nf[1] if (nf and nf != "complex" and nf[0] == "eq") else "zz"
                    cd = l.decisions.get("conv(%s.Meta.0)#d" % ib)
                    items.append(nm + (' = "ERR"' if cd == 1 else " = 7"))
                out.append("#[my(%s)] " % ", ".join(items))
    return "".join(out)


def d4_source(l, ex):
    dk = l.decisions.get("x*.data#d")
    if dk == 0:
        fs = src_fields(l, "x*.data.Struct.0.fields", ex)
        src = "pub struct Foo<T> where T: Copy%s%s" % (" " if fs.startswith(" {") else "", fs.strip() + (";" if not fs.startswith(" {") else ""))
        src = "pub struct Foo<T>%s" % ((fs + " where T: Copy;") if not fs.startswith(" {") else (" where T: Copy" + fs))
    elif dk == 1:
        n = l.decisions.get("x*.data.Enum.0.variants#len", 0)
        vs = []
        for i in range(n):
            vb = "x*.data.Enum.0.variants[%d]" % i
            dsc = " = %d" % (i + 3) if l.decisions.get(vb + ".discriminant#d") == 1 else ""
            vs.append("%sV%d%s%s" % (src_attrs(l, vb + ".attrs", ex), i, src_fields(l, vb + ".fields", ex), dsc))
        src = "pub enum Foo<T> { %s }" % ", ".join(vs)
    else:
        src = "union Foo { a: u8 }"
    return src


def d4_job(ck, prog, natbin, NF, M, quick, only=None, NV=None, MV=None):
    native = Native(natbin)
    I = Interp(prog, models.all_models(OPTS), Pol(NF, M, only, NV, MV), timeout_ms=ck.timeout_ms)
    e = prog.entry("entry_D4")
    leaves = I.explore(e, [Lazy("x", e.local_tys[1])])
    ck.absorb(I, leaves, "entry_D4")
    ck.check_exhaustive(I, leaves, "D4")
    cnt = 0
    for l in leaves:
        if l.status == "panicked":
            replay_panic(ck, native, "D4", l, "(di D4 %s)" % sx_str(d4_source(l, Exp(ck, l))), {"crate": "hderive"})
            continue
        if l.status != "returned":
            ck.obligations += 1
            ck.engine("D4: leaf %s %s" % (l.status, l.info or l.panics))
            continue
        ex = Exp(ck, l)
        kind, val = ex.data("x*.data")
        if kind == "open" or ex.open:
            ck.engine("D4: leaf leaves a needed input part open (%r)" % (sorted(l.decisions)[:8],))
            continue
        got = view(I, l, l.ret, e.local_tys[0])
        got_ok = isinstance(got, dict) and got.get("_v") == "Ok"
        good, why = True, ""
        dk = l.decisions.get("x*.data#d")
        ck.reach("%s:%s" % ({0: "struct", 1: "enum", 2: "union"}[dk], kind))
        if kind == "ok":
            if not got_ok:
                good, why = False, "rejected although every field / variant converts"
            else:
                g = got["0"]
                if not is_input(g["ident"], "x*.ident"):
                    good, why = False, "ident is not the input's identifier"
                elif not is_input(g["vis"], "x*.vis"):
                    good, why = False, "vis is not the input's visibility"
                elif not is_input(g["generics"], "x*.generics"):
                    good, why = False, "generics are not the input's generics"
                else:
                    gd = g["data"]
                    gk = gd.get("_v") if isinstance(gd, dict) else None
                    if gk != val["kind"]:
                        good, why = False, "body kind %s for an input %s" % (gk, val["kind"])
                    elif gk == "Struct":
                        good, why = check_fields(ck, l, val["fields"], gd["0"])
                    else:
                        gv = gd["0"]
                        if isinstance(gv, L):
                            gv = []
                        if len(gv) != len(val["variants"]):
                            good, why = False, "%d converted variants for %d input variants" % (len(gv), len(val["variants"]))
                        else:
                            for a, b in zip(gv, val["variants"]):
                                good, why = check_variant(ck, l, b, a)
                                if not good:
                                    break
        else:
            if got_ok:
                good, why = False, "accepted although %r" % (val,)
            else:
                good, why = match_errors(val, flat_errors(got["0"], l), l, check_spans=False)
        src = d4_source(l, ex)
        req = "(di D4 %s)" % sx_str(src)
        cnt += 1
        if ex.ignored:
            # the model converts every field / variant, this path never looked at some of them: complete the input with a failing
            # attribute on each ignored element and replay - every one of them must add an error
            ck.obligations += 1
            want = (len(val) if kind == "err" else 0) + len(ex.ignored)
            nat = native.ask(req)
            r = nat.get("result", {}) if isinstance(nat, dict) else {}
            if isinstance(r, dict) and "err" in r and len(r["err"]) == want:
                ck.engine("D4: elements %r were not inspected symbolically, but the native run reports them (%s)" % (ex.ignored, req))
            else:
                ck.report("D4:element-never-converted", "a field / variant is never converted on a path where an earlier one failed: its errors are lost",
                          {"property": "C16", "crate": "hderive", "request": req, "expected_errors": want, "ignored": ex.ignored, "observed": nat})
            continue
        if good:
            ck.ok()
        else:
            ck.obligations += 1
        if good and cnt % (3 if quick else 6):
            continue
        nat = native.ask(req)
        r = nat.get("result", {}) if isinstance(nat, dict) else {}
        if kind == "ok":
            agree = isinstance(r, dict) and "ok" in r
            if agree:
                d = r["ok"]["data"]
                if val["kind"] == "Struct":
                    agree = "struct" in d and d["struct"]["style"] == val["fields"]["style"] and len(d["struct"]["fields"]) == len(val["fields"]["fields"])
                else:
                    agree = "enum" in d and len(d["enum"]) == len(val["variants"])
        else:
            agree = isinstance(r, dict) and "err" in r and len(r["err"]) == len(val)
        if good and agree:
            ck.native_agree += 1
            if len(ck.samples) < 8 and kind == "ok" and dk == 1:
                ck.sample({"source": src, "native": r})
        elif good and not agree:
            ck.report("D4:native:%s" % kind, "native outcome differs from the model", {"property": "C16", "crate": "hderive", "request": req, "expected": repr((kind, val))[:500], "observed": nat})
        elif agree and "identifier" not in why and "input" not in why:
            ck.engine("D4: %s, but native agrees with the model (%s)" % (why, req))
        else:
            ck.report("D4:%s" % why.split("(")[0][:50], why, {"property": "C16", "crate": "hderive", "request": req, "expected": repr((kind, val))[:500], "observed": nat, "symbolic": rep(got)[:800]})
    native.close()


def small_job(ck, prog, natbin, rn, quick):
    """F1 / V1 / T1 alone: magic members by identity"""
    I = Interp(prog, models.all_models(OPTS), Pol(1, 1), timeout_ms=ck.timeout_ms)
    e = prog.entry("entry_%s" % rn)
    leaves = I.explore(e, [Lazy("x", e.local_tys[1])])
    ck.absorb(I, leaves, "entry_%s" % rn)
    ck.check_exhaustive(I, leaves, rn)
    for l in leaves:
        if l.status != "returned":
            ck.obligations += 1
            ck.engine("%s: leaf %s %s" % (rn, l.status, l.info or l.panics))
            continue
        got = view(I, l, l.ret, e.local_tys[0])
        if not (isinstance(got, dict) and got.get("_v") == "Ok"):
            continue
        g = got["0"]
        good, why = True, ""
        if rn == "T1":
            if not is_input(g["ident"], "x*.ident"):
                good, why = False, "type parameter ident"
            gb = g["bounds"]
            # bounds: Vec<TypeParamBound> collected from the input's Punctuated, in order
            if not (isinstance(gb, L) or all("x*.bounds" in rep(b) for b in gb)):
                good, why = False, "bounds are not the input's bounds"
            nb = l.decisions.get("x*.bounds#len")
            if nb is not None and not isinstance(gb, L) and len(gb) != nb:
                good, why = False, "%d bounds for %d input bounds" % (len(gb), nb)
            gd = g["default"]
            dd = l.decisions.get("x*.default#d")
            if dd == 0 and not (isinstance(gd, dict) and gd.get("_v") == "None"):
                good, why = False, "default invented"
            if dd == 1 and not (isinstance(gd, dict) and gd.get("_v") == "Some" and is_input(gd["0"], "x*.default.Some.0")):
                good, why = False, "default is not the input's type"
            if dd is None and not is_input(gd, "x*.default"):
                good, why = False, "default differs"
        ck.reach(rn)
        if good:
            ck.ok()
        else:
            ck.obligations += 1
            ck.report("%s:%s" % (rn, why[:40]), why, {"property": "C16", "crate": "hderive", "request": "(di T1 \"struct Foo<T: Clone = u8> { f: u8 }\")", "symbolic": rep(g)[:600]})


class GPol(syn_models.SynPolicy):
    """symbolic `syn::Generics`: 0..2 parameters of any kind, where clause present or not"""

    def len_bounds(self, I, st, name, t):
        if name == "g*.params":
            return (0, 2)
        return (0, 1)


def generics_job(ck, prog, natbin):
    """`ast::Generics<ast::GenericParam>` (the darling::ast form of the `generics` magic field): one parameter per input parameter, in
    order and of the same kind, and the where clause is the input's (present iff present) - whatever the parameter count"""
    native = Native(natbin)
    I = Interp(prog, models.all_models(OPTS), GPol(), timeout_ms=ck.timeout_ms)
    e = prog.entry("entry_ast_generics")
    leaves = I.explore(e, [Lazy("g", e.local_tys[1])])
    ck.absorb(I, leaves, "entry_ast_generics")
    ck.check_exhaustive(I, leaves, "ast_generics")
    kinds = {0: "Lifetime", 1: "Type", 2: "Const"}
    decl = {0: "'a", 1: "T", 2: "const N: usize"}
    for l in leaves:
        np_ = l.decisions.get("g*.params#len", 0)
        wc = l.decisions.get("g*.where_clause#d")
        pk = [l.decisions.get("g*.params[%d]#d" % i) for i in range(np_)]
        ps = ", ".join(decl.get(k, "U") if i == 0 or pk[0] != k else {0: "'b", 1: "U", 2: "const M: usize"}[k] for i, k in enumerate(pk))
        src = "struct Foo%s%s;" % ("<%s>" % ps if np_ else "", " where u8: Copy" if wc != 0 else "")      # never looked at: the witness is the completion that has one
        req = "(ast_generics _ %s)" % sx_str(src)
        if l.status == "panicked":
            replay_panic(ck, native, "ast_generics", l, req, {"crate": "hderive"})
            continue
        if l.status != "returned":
            ck.obligations += 1
            ck.engine("ast_generics: leaf %s %s" % (l.status, l.info or l.panics))
            continue
        got = view(I, l, l.ret, e.local_tys[0])
        good, why = True, ""
        if not (isinstance(got, dict) and got.get("_v") == "Ok"):
            good, why = False, "rejected: converting generic parameters by cloning cannot fail"
        else:
            g = got["0"]
            gp = g["params"]
            if isinstance(gp, L):
                gp = []
            if wc is None:
                # the where clause was moved as a whole without being looked at
                if not is_input(g["where_clause"], "g*.where_clause"):
                    good, why = False, "where clause is not the input's"
            elif wc == 1:
                gw = g["where_clause"]
                if not (isinstance(gw, dict) and gw.get("_v") == "Some" and is_input(gw["0"], "g*.where_clause.Some.0")):
                    good, why = False, "the input's where clause is dropped or replaced"
            else:
                gw = g["where_clause"]
                if not (isinstance(gw, dict) and gw.get("_v") == "None"):
                    good, why = False, "a where clause appears although the input has none"
            if good and len(gp) != np_:
                good, why = False, "%d parameters for %d declared" % (len(gp), np_)
            for i, q in enumerate(gp if good else []):
                k = kinds.get(pk[i])
                if not (isinstance(q, dict) and q.get("_v") == k and is_input(q["0"], "g*.params[%d].%s.0" % (i, k))):
                    good, why = False, "parameter %d is not the input's parameter %d (%s)" % (i, i, k)
                    break
        ck.reach("generics:%d" % np_)
        if good:
            ck.ok()
            continue
        ck.obligations += 1
        nat = native.ask(req)
        okn = isinstance(nat, dict) and isinstance(nat.get("result"), dict) and isinstance(nat["result"].get("ok"), dict)
        if okn and nat["result"]["ok"].get("params") == np_ and (nat["result"]["ok"].get("where") is not None) == (wc != 0):
            ck.engine("ast_generics: %s, but the native run mirrors the input (%s -> %s)" % (why, req, str(nat)[:160]))
            continue
        ck.report("ast_generics:%s" % why[:40], why, {"property": "C16", "crate": "hderive", "request": req, "observed": nat, "symbolic": rep(got)[:600]})
    native.close()


def prepare(ck):
    """configure `ck` and return the list of jobs of this property's exploration"""
    ck.crate = "hderive"
    quick = ck.tier == "quick"
    NF = 2 if quick else 3
    ck.bounds = {"fields_or_variants": "0..%d without attributes; with 0..1 attribute each: 0..1 of both, 0..2 fields of a struct, 0..2 fields of one variant, 0..2 attributed variants of 0..1 plain field" % NF, "attributes_per_field": "0..1", "receivers": ["D4 (ident, vis, generics, data: Data<V1, F1>)", "F1", "V1", "T1", "ast::Generics<ast::GenericParam> over 0..2 parameters of any kind, where clause present / absent"]}
    ck.outside = ["re-printing a converted field list (`Fields::to_tokens`: quote! output, token model - stage B)", "more fields / variants than the bound",
                  "magic members wrapped in SpannedValue / WithOriginal / Result (their element-level impls delegate like the FromMeta ones: C12)"]
    ck.assumptions = ["syn invariants: named fields carry an identifier, tuple fields do not", "Clone of syn data is a structural copy"]
    prog = Program(build.dump_mir("hderive", opts=OPTS))
    natbin = build.build_native("hderive")
    ck.programs.add("hderive::D4")
    jobs = [lambda sub: d4_job(sub, prog, natbin, 1, 1, quick), lambda sub: d4_job(sub, prog, natbin, NF, 0, quick),
            lambda sub: d4_job(sub, prog, natbin, 2, 1, quick, only=("Struct",)),
            lambda sub: d4_job(sub, prog, natbin, 2, 1, quick, only=("Enum",), NV=1),
            lambda sub: d4_job(sub, prog, natbin, 1, 0, quick, only=("Enum",), NV=2, MV=1),
            lambda sub: small_job(sub, prog, natbin, "T1", quick),
            lambda sub: generics_job(sub, prog, natbin)]
    ck.programs.add("hderive::entry_ast_generics (ast::Generics<ast::GenericParam> as FromGenerics)")
    return jobs


def main():
    ck = Check("C16")
    ck.run_jobs(prepare(ck))
    ck.require_reached(["struct:ok", "enum:ok", "union:err", "struct:err", "enum:err", "T1", "generics:0", "generics:1", "generics:2"])
    ck.finish()


if __name__ == "__main__":
    main()
