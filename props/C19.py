"""C19 (a) - generic-parameter usage analysis is exact.

`UsesTypeParams` / `UsesLifetimes` for `syn::Type` (and through it every impl the walk reaches: paths, path arguments, generic
arguments, bounds, bare fns, qualified self), `collect_type_params[_cloned]` / `collect_lifetimes` over a collection, `Fields`,
and `GenericsExt::declared_*` are executed on a lazily initialised symbolic `syn::Type` (every variant reachable through symbolic
discriminants), a symbolic query set of 0..2 symbolic names and a symbolic purpose.

Reference model: a structural walk over the *input* that collects the positions the statement calls uses - the leading segment
of an unqualified path, everything inside generic arguments, element / input / output / bound positions, the qualified self only
for `Purpose::Declare`.  The answer must contain a queried name exactly when some use position carries it (SMT validity over the
unconstrained name strings), its size must be the number of distinct queried names used.  A position the walk needs but the
implementation never looked at (an undecided part of the input) is completed with the queried name and replayed natively.

Part (b) of the property (the generics / where clause / bounds of emitted impls) needs the derive's token output and is not
covered here (see DESIGN.md)."""
import os
import re
import sys
import z3

sys.path.insert(0, os.path.dirname(os.path.dirname(os.path.abspath(__file__))))
from vlib import build
from vlib.prop import Check, Native, sx_str
from vlib.view import view
from mirsym import Program, Interp, models, Lazy, syn_models, harness_models  # noqa: F401
from props.recv_common import replay_panic

OPTS = ("no_dym",)
BOX = ".0.pointer.pointer*"
TYN = re.compile(r"\.(Slice|Array|Ptr|Reference|BareFn|Tuple|Path|Paren|Group|TraitObject|ImplTrait)\.0")
LEAF_TYPES = ("Path", "Never", "Infer", "Macro", "Verbatim")
WRAPPERS = ("Slice", "Array", "Ptr", "Reference", "Paren", "Group")


def tdepth(name):
    return len(TYN.findall(name))


class Pol(syn_models.SynPolicy):
    """bounds of the symbolic type.  D = nesting depth of types; top = allowed variants of the outermost type;
    nfix = fixed size of the query set (None: symbolic 0..2); wide = collections of up to 2 at the outermost level"""

    def __init__(self, D, top=None, nfix=None, wide=True, roots=("ty*",), argdepth=1, leaf_types=LEAF_TYPES, seg2=False):
        super().__init__()
        self.seg2 = seg2          # outermost path: exactly two segments, arguments only on the second
        self.leaf_types = leaf_types
        self.D = D
        self.top = top
        self.nfix = nfix
        self.wide = wide
        self.roots = roots
        self.argdepth = argdepth

    def variants(self, I, st, lz, t):
        n = t.adt["name"] if t.adt else ""
        nm = lz.name
        if n == "syn::Type":
            if self.top and nm in self.roots:
                return [i for i, v in enumerate(t.adt["variants"]) if v["name"] in self.top]
            if tdepth(nm) >= self.D:
                return [i for i, v in enumerate(t.adt["variants"]) if v["name"] in self.leaf_types]
        if nm.endswith(".qself") and tdepth(nm) > self.D:
            return [0]
        if n == "syn::PathArguments":
            if self.seg2 and nm == "ty*.Path.0.path.segments[0].arguments":
                return [0]
            if tdepth(nm) > self.D or nm.count(".arguments.") >= self.argdepth:
                return [0]
        if n == "syn::TypeParamBound":
            # `use<..>` captures and verbatim (unstable-syntax) bounds cannot occur in a field type; the code panics on them on purpose
            return [i for i, v in enumerate(t.adt["variants"]) if v["name"] in ("Trait", "Lifetime")]
        if nm.endswith(".lifetimes") and ("BoundLifetimes" in (t.str or "")):
            return [0]     # higher-ranked binders introduce names, they do not use the receiver's parameters
        if nm.endswith(".generics") and "AngleBracketedGenericArguments" in (t.str or ""):
            return [0]     # generic associated types `Item<T> = ..`
        return syn_models.SynPolicy.variants(self, I, st, lz, t)

    def len_bounds(self, I, st, name, t):
        top = tdepth(name) <= 1 and name.count(".arguments.") == 0
        if name.endswith(".segments") and self.seg2 and name == "ty*.Path.0.path.segments":
            return (2, 2)
        if name.endswith(".segments"):
            return (1, 2) if (top and self.wide in (True, "segments")) else (1, 1)
        if name.endswith(".elems") or name.endswith(".bounds") or name.endswith(".args"):
            return (0, 2) if (top and self.wide is True) else (0, 1)
        if name in ("tys*",):
            return (0, 2)
        if name.endswith(".named") or name.endswith(".unnamed") or name.endswith(".params"):
            return (0, 2)
        return (0, 1)

    def int_constraint(self, name, t, v):
        if name == "n":
            return (v == self.nfix) if self.nfix is not None else z3.ULE(v, 2)
        return None


class Walk:
    """the reference walk over the decided input of one leaf"""

    def __init__(self, ck, prog, l, mode):
        self.ck = ck
        self.l = l
        self.mode = mode          # "tp" | "lt"
        self.uses = []            # z3 string terms at use positions
        self.opens = []           # parts the walk needs that the implementation never decided
        self.nonuses = []         # names at non-use positions (for the witness only)
        self.tyv = [v["name"] for v in prog.find_ty("syn::Type").adt["variants"]]
        self.gav = [v["name"] for v in prog.find_ty("syn::GenericArgument").adt["variants"]]
        self.bv = [v["name"] for v in prog.find_ty("syn::TypeParamBound").adt["variants"]]
        self.declare = None

    def d(self, key):
        return self.l.decisions.get(key)

    def purpose_declare(self):
        if self.declare is None:
            dv = z3.Bool("declare")
            if self.ck.implies(self.l.pc, dv):
                self.declare = True
            elif self.ck.implies(self.l.pc, z3.Not(dv)):
                self.declare = False
            else:
                self.declare = "open"
        return self.declare

    def punct(self, base, f):
        n = self.d(base + "#len")
        if n is None:
            self.opens.append(("list", base))
            return
        for i in range(n):
            f("%s[%d]" % (base, i))

    def lifetime(self, base):
        if self.mode == "lt":
            self.uses.append(z3.String(base + ".ident.sym"))

    def ty(self, base):
        d = self.d(base + "#d")
        if d is None:
            self.opens.append(("type", base))
            return
        vn = self.tyv[d]
        inner = "%s.%s.0" % (base, vn)
        if vn in WRAPPERS:
            if vn == "Reference":
                ld = self.d(inner + ".lifetime#d")
                if self.mode == "lt":
                    if ld is None:
                        self.opens.append(("reflt", inner + ".lifetime"))
                    elif ld == 1:
                        self.lifetime(inner + ".lifetime.Some.0")
            self.ty(inner + ".elem" + BOX)
        elif vn == "Tuple":
            self.punct(inner + ".elems", self.ty)
        elif vn == "BareFn":
            self.punct(inner + ".inputs", lambda b: self.ty(b + ".ty"))
            self.ret(inner + ".output")
        elif vn == "Path":
            self.path(inner + ".path", leading=(self.mode == "tp"))
            decl = self.purpose_declare()
            if decl == "open":
                self.opens.append(("purpose", "declare"))
            elif decl:
                q = self.d(inner + ".qself#d")
                if q is None:
                    self.opens.append(("qself", inner + ".qself"))
                elif q == 1:
                    self.ty(inner + ".qself.Some.0.ty" + BOX)
        elif vn in ("TraitObject", "ImplTrait"):
            self.punct(inner + ".bounds", self.bound)
        # Macro / Verbatim / Infer / Never: nothing inside denotes a parameter

    def ret(self, base):
        d = self.d(base + "#d")
        if d is None:
            self.opens.append(("ret", base))
        elif d == 1:
            self.ty(base + ".Type.1" + BOX)

    def bound(self, base):
        d = self.d(base + "#d")
        if d is None:
            self.opens.append(("bound", base))
            return
        vn = self.bv[d]
        if vn == "Trait":
            self.path(base + ".Trait.0.path", leading=(self.mode == "tp"))
        elif vn == "Lifetime":
            self.lifetime(base + ".Lifetime.0")

    def path(self, base, leading):
        n = self.d(base + ".segments#len")
        if n is None:
            self.opens.append(("path", base))
            return
        if leading and n >= 1:
            lc = self.d(base + ".leading_colon#d")
            if lc is None:
                self.opens.append(("colon", base))
            elif lc == 0:
                self.uses.append(z3.String(base + ".segments[0].ident.sym"))
        for i in range(n):
            sg = "%s.segments[%d]" % (base, i)
            a = self.d(sg + ".arguments#d")
            if a is None:
                self.opens.append(("args", sg + ".arguments"))
            elif a == 1:
                self.punct(sg + ".arguments.AngleBracketed.0.args", self.garg)
            elif a == 2:
                self.punct(sg + ".arguments.Parenthesized.0.inputs", self.ty)
                self.ret(sg + ".arguments.Parenthesized.0.output")

    def garg(self, base):
        d = self.d(base + "#d")
        if d is None:
            self.opens.append(("garg", base))
            return
        vn = self.gav[d]
        if vn == "Type":
            self.ty(base + ".Type.0")
        elif vn == "AssocType":
            self.ty(base + ".AssocType.0.ty")
        elif vn == "Constraint":
            self.punct(base + ".Constraint.0.bounds", self.bound)
        elif vn == "Lifetime":
            self.lifetime(base + ".Lifetime.0")
        # Const / AssocConst: expressions are not searched (documented: const-expression arguments are not uses)


class Render:
    """source text of the decided input (for native replay).  `fill` = text for undecided types (completion of open parts)"""

    def __init__(self, w, mdl, fill="u8", fill_lt="'zq"):
        self.w = w
        self.l = w.l
        self.mdl = mdl
        self.fill = fill
        self.fill_lt = fill_lt
        self.bad = None
        self.k = 0

    def d(self, key):
        return self.l.decisions.get(key)

    def name(self, var):
        self.k += 1
        v = self.mdl.eval(z3.String(var), model_completion=False) if self.mdl is not None else None
        if v is not None and z3.is_string_value(v):
            s = v.as_string()
            if re.fullmatch(r"[A-Z][a-z]{1,6}", s) and s != "Self":
                return s
            self.bad = "name %r" % s
        return "Zq%s" % "abcdefghij"[self.k % 10] + "xyzuvw"[(self.k // 10) % 6]

    def lt(self, base):
        return "'" + self.name(base + ".ident.sym").lower()

    def punct(self, base, f, default=0):
        n = self.d(base + "#len")
        if n is None:
            n = default
        return [f("%s[%d]" % (base, i)) for i in range(n)]

    def ty(self, base):
        d = self.d(base + "#d")
        if d is None:
            return self.fill
        vn = self.w.tyv[d]
        inner = "%s.%s.0" % (base, vn)
        el = lambda: self.ty(inner + ".elem" + BOX)   # noqa: E731
        if vn == "Slice":
            return "[%s]" % el()
        if vn == "Array":
            return "[%s; 3]" % el()
        if vn == "Ptr":
            return "*const %s" % el()
        if vn == "Reference":
            ld = self.d(inner + ".lifetime#d")
            if ld == 1:
                return "&%s %s" % (self.lt(inner + ".lifetime.Some.0"), el())
            if ld is None and self.w.mode == "lt" and self.fill_lt:
                return "&%s %s" % (self.fill_lt, el())
            return "&%s" % el()
        if vn == "Paren":
            return "(%s)" % el()
        if vn == "Group":
            return "__group!(%s)" % el()
        if vn == "Tuple":
            es = self.punct(inner + ".elems", self.ty)
            return "(%s)" % (es[0] + "," if len(es) == 1 else ", ".join(es))
        if vn == "BareFn":
            ins = self.punct(inner + ".inputs", lambda b: self.ty(b + ".ty"))
            return "fn(%s)%s" % (", ".join(ins), self.ret(inner + ".output"))
        if vn == "Path":
            q = self.d(inner + ".qself#d")
            p = inner + ".path"
            if q == 1 or (q is None and self.w.declare is True and ("qself", inner + ".qself") in self.w.opens):
                qt = self.ty(inner + ".qself.Some.0.ty" + BOX) if q == 1 else self.fill
                # `<Q as Tr>::Name` : syn gives the path `Tr::Name` (position 1, no leading colon); `<Q>::Name` : position 0 and a leading colon
                n = self.d(p + ".segments#len") or 1
                lc = self.d(p + ".leading_colon#d")
                segs = [self.seg("%s.segments[%d]" % (p, i)) for i in range(n)]
                if lc == 1:
                    return "<%s>::%s" % (qt, "::".join(segs))
                if n >= 2:
                    return "<%s as %s>::%s" % (qt, segs[0], "::".join(segs[1:]))
                self.bad = "qself with a one-segment unqualified path"
                return "<%s as %s>::Zz" % (qt, segs[0])
            return self.path(p)
        if vn in ("TraitObject", "ImplTrait"):
            bs = self.punct(inner + ".bounds", self.bound)
            if not bs or all(b.startswith("'") for b in bs):
                self.bad = "object type without a trait"
            return "%s %s" % ("dyn" if vn == "TraitObject" else "impl", " + ".join(bs) or "Zz")
        if vn == "Never":
            return "!"
        if vn == "Infer":
            return "_"
        if vn == "Macro":
            return "zzmac!(Zz)"
        if vn == "Verbatim":
            return "__verbatim!()"
        self.bad = "type form %s" % vn
        return self.fill

    def ret(self, base):
        d = self.d(base + "#d")
        if d == 1:
            return " -> %s" % self.ty(base + ".Type.1" + BOX)
        if d is None and ("ret", base) in self.w.opens:
            return " -> %s" % self.fill
        return ""

    def bound(self, base):
        d = self.d(base + "#d")
        if d is None:
            return self.fill if self.w.mode == "tp" else self.fill_lt
        vn = self.w.bv[d]
        if vn == "Trait":
            return self.path(base + ".Trait.0.path")
        return self.lt(base + ".Lifetime.0")

    def seg(self, sg):
        s = self.name(sg + ".ident.sym")
        a = self.d(sg + ".arguments#d")
        if a == 1:
            gs = self.punct(sg + ".arguments.AngleBracketed.0.args", self.garg)
            s += "<%s>" % ", ".join(gs)
        elif a == 2:
            ins = self.punct(sg + ".arguments.Parenthesized.0.inputs", self.ty)
            s += "(%s)%s" % (", ".join(ins), self.ret(sg + ".arguments.Parenthesized.0.output"))
        elif a is None and ("args", sg + ".arguments") in self.w.opens:
            s += "<%s>" % (self.fill if self.w.mode == "tp" else self.fill_lt)
        return s

    def path(self, p):
        n = self.d(p + ".segments#len")
        if n is None:
            return self.fill
        lc = self.d(p + ".leading_colon#d")
        segs = [self.seg("%s.segments[%d]" % (p, i)) for i in range(n)]
        return ("::" if lc == 1 else "") + "::".join(segs)

    def garg(self, base):
        d = self.d(base + "#d")
        if d is None:
            return self.fill if self.w.mode == "tp" else self.fill_lt
        vn = self.w.gav[d]
        if vn == "Type":
            return self.ty(base + ".Type.0")
        if vn == "Lifetime":
            return self.lt(base + ".Lifetime.0")
        if vn == "Const":
            return "3"
        if vn == "AssocType":
            return "%s = %s" % (self.name(base + ".AssocType.0.ident.sym"), self.ty(base + ".AssocType.0.ty"))
        if vn == "AssocConst":
            return "%s = 3" % self.name(base + ".AssocConst.0.ident.sym")
        if vn == "Constraint":
            bs = self.punct(base + ".Constraint.0.bounds", self.bound)
            return "%s: %s" % (self.name(base + ".Constraint.0.ident.sym"), " + ".join(bs) or "Zz")
        self.bad = "generic argument %s" % vn
        return "Zz"


def name_validity(l, extra_vars):
    """identifier shape of every name variable of the leaf (only used when asking for a witness)"""
    names = set(extra_vars)
    for c in l.pc:
        for m in re.finditer(r"\|?([A-Za-z0-9_\*\.\[\]]+\.sym)\|?", c.sexpr()):
            names.add(m.group(1))
    rx = z3.Concat(z3.Range("A", "Z"), z3.Loop(z3.Range("a", "z"), 1, 6))
    out = []
    for nm in sorted(names):
        v = z3.String(nm)
        out.append(z3.InRe(v, rx))
        out.append(v != z3.StringVal("Self"))
    return out


def explore_job(ck, prog, natbin, entry, mode, pol, tag, quick, coll=None):
    """one exploration of `entry`; coll = None (a single type `ty`) | 'vec' (a Vec<Type> `tys`) | 'fields'"""
    native = Native(natbin)
    I = Interp(prog, models.all_models(OPTS), pol, timeout_ms=ck.timeout_ms)
    e = prog.entry(entry)
    first = {"vec": "tys", "fields": "fields"}.get(coll, "ty")
    leaves = I.explore(e, [Lazy(n, t) for n, t in zip([first, "declare", "a", "b", "n"], e.local_tys[1:6])])
    ck.absorb(I, leaves, entry)
    ck.check_exhaustive(I, leaves, "%s:%s" % (entry, tag))
    A = z3.String("a*.sym" if mode == "tp" else "a*.ident.sym")
    B = z3.String("b*.sym" if mode == "tp" else "b*.ident.sym")
    nv = z3.BitVec("n", 8)
    in1, in2 = z3.UGE(nv, 1), z3.UGE(nv, 2)
    cnt = 0
    req_kind = {"entry_tp_type": "tp_type", "entry_lt_type": "lt_type", "entry_tp_vec": "tp_vec", "entry_tp_vec_cloned": "tp_vec_cloned",
                "entry_lt_vec": "lt_vec", "entry_tp_fields": "tp_fields"}[entry]

    def roots(w):
        if coll is None:
            return ["ty*"]
        if coll == "vec":
            n = l.decisions.get("tys*#len")
            if n is None:
                w.opens.append(("list", "tys*"))
                return []
            return ["tys*[%d]" % i for i in range(n)]
        # syn::Fields: Named / Unnamed / Unit
        d = l.decisions.get("fields*#d")
        if d is None:
            w.opens.append(("fields", "fields*"))
            return []
        if d == 2:
            return []
        lst = "fields*" + (".Named.0.named" if d == 0 else ".Unnamed.0.unnamed")
        n = l.decisions.get(lst + "#len")
        if n is None:
            w.opens.append(("list", lst))
            return []
        return ["%s[%d].ty" % (lst, i) for i in range(n)]

    def source(w, mdl, fill, fill_lt):
        r = Render(w, mdl, fill, fill_lt)
        parts = [r.ty(b) for b in roots(w)]
        if coll is None:
            src = parts[0]
        elif coll == "vec":
            src = "(%s)" % "".join(p + "," for p in parts)
        else:
            d = l.decisions.get("fields*#d")
            if d == 0:
                src = "struct Foo { %s }" % ", ".join("f%d: %s" % (i, p) for i, p in enumerate(parts))
            elif d == 1:
                src = "struct Foo(%s);" % ", ".join(parts)
            else:
                src = "struct Foo;"
        return src, r.bad

    def request(w, mdl, fill="u8", fill_lt="'zq"):
        src, bad = source(w, mdl, fill, fill_lt)
        r = Render(w, mdl)
        an, bn = r.name(A.decl().name()), r.name(B.decl().name())
        if mode == "lt":
            an, bn = "'" + an.lower(), "'" + bn.lower()
        nn = mdl.eval(nv, model_completion=True).as_long() if mdl is not None else 0
        decl = w.declare if isinstance(w.declare, bool) else bool(z3.is_true(mdl.eval(z3.Bool("declare"), model_completion=True)))
        return "(%s %s %s %s %s %d)" % (req_kind, sx_str(src), "declare" if decl else "bound", sx_str(an), sx_str(bn), min(nn, 2)), bad or r.bad, (an, bn, nn)

    for l in leaves:
        w = Walk(ck, prog, l, mode)
        if l.status == "panicked":
            for b in roots(w):
                w.ty(b)
            mdl = ck.model_of(list(l.pc) + name_validity(l, [A.decl().name(), B.decl().name()])) or ck.model_of(l.pc)
            req, bad, _ = request(w, mdl)
            replay_panic(ck, native, "%s:%s" % (entry, tag), l, req, {"crate": "husage"})
            continue
        if l.status != "returned":
            ck.obligations += 1
            ck.engine("%s: leaf %s %s" % (entry, l.status, str(l.info or l.panics)[:300]))
            continue
        for b in roots(w):
            w.ty(b)
        got = view(I, l, l.ret, e.local_tys[0])
        ga, gb, glen = got

        def used(x):
            return z3.Or([p == x for p in w.uses]) if w.uses else z3.BoolVal(False)

        def zb(v):
            return v if z3.is_expr(v) else z3.BoolVal(bool(v))
        exp_a = z3.And(in1, used(A))
        exp_b = z3.Or(z3.And(in2, used(B)), z3.And(in1, A == B, used(B)))
        exp_len = z3.If(z3.And(in1, used(A)), 1, 0) + z3.If(z3.And(in2, A != B, used(B)), 1, 0)
        glen_t = glen if z3.is_expr(glen) else z3.IntVal(int(glen))
        if z3.is_bv(glen_t):
            glen_t = z3.BV2Int(glen_t)
        claim = z3.And(zb(ga) == exp_a, zb(gb) == exp_b, glen_t == exp_len)
        ck.reach("uses:%d" % min(len(w.uses), 2))
        if w.opens:
            # the walk needs a part of the input that this path never looked at: complete it with a use of the queried name and replay
            ck.obligations += 1
            val = name_validity(l, [A.decl().name(), B.decl().name()])
            mdl = ck.model_of(list(l.pc) + val + [in1])
            if mdl is None:
                # the query set is empty on this path: nothing can be used, skipping is unobservable
                ck.ok()
                continue
            r0 = Render(w, mdl)
            an = r0.name(A.decl().name())
            req, bad, (an2, bn2, nn) = request(w, mdl, fill=an, fill_lt="'" + an.lower())
            if any(k == "purpose" for k, _ in w.opens):
                ck.engine("%s: the purpose was never consulted although a path type was walked" % entry)
                continue
            nat = native.ask(req)
            r = nat.get("result", {}) if isinstance(nat, dict) else {}
            if "parse_error" in r or bad:
                ck.engine("%s: unexplored input part %r and no replayable completion (%s)" % (entry, w.opens[:2], bad or r.get("parse_error")))
            elif r.get("a") is True:
                ck.engine("%s: part %r was not inspected symbolically, but the native run finds the use (%s)" % (entry, w.opens[:2], req))
            else:
                ck.report("%s:position-never-searched:%s" % (entry, w.opens[0][0]), "a use position is never searched: `%s` occurs there and is not reported" % an2,
                          {"property": "C19", "crate": "husage", "request": req, "expected": {"a": True}, "observed": nat, "unsearched": [o[1][-120:] for o in w.opens[:4]]})
            continue
        okv, m2 = ck.smt_valid(l.pc, claim)
        cnt += 1
        if okv:
            if cnt % (4 if quick else 9) == 0:
                mdl = ck.model_of(list(l.pc) + name_validity(l, [A.decl().name(), B.decl().name()]))
                if mdl is None:
                    continue
                req, bad, (an, bn, nn) = request(w, mdl)
                if bad:
                    continue
                nat = native.ask(req)
                r = nat.get("result", {}) if isinstance(nat, dict) else {}
                if "parse_error" in r:
                    continue
                ev = lambda t: bool(z3.is_true(mdl.eval(t, model_completion=True)))   # noqa: E731
                want = {"a": ev(exp_a), "b": ev(exp_b), "len": mdl.eval(exp_len, model_completion=True).as_long()}
                if r == want:
                    ck.native_agree += 1
                    if len(ck.samples) < 8 and len(w.uses) >= 2:
                        ck.sample({"entry": entry, "request": req, "native": r})
                else:
                    ck.report("%s:native:%s" % (entry, tag), "native answer differs from the reference walk", {"property": "C19", "crate": "husage", "request": req, "expected": want, "observed": nat})
            continue
        if okv is None:
            ck.engine("%s: solver could not decide a leaf" % entry)
            continue
        # counterexample: names from the model, replay
        val = name_validity(l, [A.decl().name(), B.decl().name()])
        mdl = ck.model_of(list(l.pc) + val + [z3.Not(claim)])
        if mdl is None:
            ck.engine("%s: symbolic answer differs from the walk only for names that are not identifiers" % entry)
            continue
        req, bad, (an, bn, nn) = request(w, mdl)
        ev = lambda t: bool(z3.is_true(mdl.eval(t, model_completion=True)))   # noqa: E731
        want = {"a": ev(exp_a), "b": ev(exp_b), "len": mdl.eval(exp_len, model_completion=True).as_long()}
        nat = native.ask(req) if not bad else {}
        r = nat.get("result", {}) if isinstance(nat, dict) else {}
        if bad or "parse_error" in r:
            ck.engine("%s: symbolic answer differs from the walk, witness not replayable (%s)" % (entry, bad or r.get("parse_error")))
        elif r == want:
            ck.engine("%s: symbolic answer differs from the walk but the native run agrees with it (%s)" % (entry, req))
        else:
            why = "answer %s for %s with the set {%s}, the use positions say %s" % (r, req.split('"')[1], ", ".join([an, bn][:nn]), want)
            ck.report("%s:wrong-answer:%s" % (entry, tag), why, {"property": "C19", "crate": "husage", "request": req, "expected": want, "observed": nat})
    native.close()


def declared_job(ck, prog, natbin):
    """GenericsExt: the declared type parameters / lifetimes are exactly the parameters of that kind"""
    native = Native(natbin)
    pol = Pol(0)
    I = Interp(prog, models.all_models(OPTS), pol, timeout_ms=ck.timeout_ms)
    e = prog.entry("entry_declared")
    leaves = I.explore(e, [Lazy(n, t) for n, t in zip(["g", "a", "l"], e.local_tys[1:4])])
    ck.absorb(I, leaves, "entry_declared")
    ck.check_exhaustive(I, leaves, "declared")
    gpv = [v["name"] for v in prog.find_ty("syn::GenericParam").adt["variants"]]
    A = z3.String("a*.sym")
    LT = z3.String("l*.ident.sym")
    for l in leaves:
        if l.status != "returned":
            ck.obligations += 1
            ck.engine("declared: leaf %s %s" % (l.status, str(l.info or l.panics)[:200]))
            continue
        n = l.decisions.get("g*.params#len")
        if n is None:
            ck.obligations += 1
            ck.report("declared:params-ignored", "the parameter list is never read", {"property": "C19", "crate": "husage", "request": "(declared \"struct S<T>;\" \"T\" \"'a\")"})
            continue
        tps, lts, opn = [], [], False
        for i in range(n):
            d = l.decisions.get("g*.params[%d]#d" % i)
            if d is None:
                opn = True
                continue
            k = gpv[d]
            if k == "Type":
                tps.append(z3.String("g*.params[%d].Type.0.ident.sym" % i))
            elif k == "Lifetime":
                lts.append(z3.String("g*.params[%d].Lifetime.0.lifetime.ident.sym" % i))
        if opn:
            ck.obligations += 1
            ck.engine("declared: a parameter's kind was never inspected")
            continue
        got = view(I, l, l.ret, e.local_tys[0])
        g_tp, g_ntp, g_lt, g_nlt = got

        def zb(v):
            return v if z3.is_expr(v) else z3.BoolVal(bool(v))

        def distinct_count(ts):
            tot = z3.IntVal(0)
            for i, t in enumerate(ts):
                tot = tot + z3.If(z3.Or([t == u for u in ts[:i]]) if i else z3.BoolVal(False), 0, 1)
            return tot
        claim = z3.And(zb(g_tp) == (z3.Or([t == A for t in tps]) if tps else z3.BoolVal(False)),
                       zb(g_lt) == (z3.Or([t == LT for t in lts]) if lts else z3.BoolVal(False)),
                       z3.IntVal(int(g_ntp)) == distinct_count(tps), z3.IntVal(int(g_nlt)) == distinct_count(lts))
        okv, m2 = ck.smt_valid(l.pc, claim)
        ck.reach("declared")
        if okv is False:
            ck.report("declared:wrong", "declared parameter sets differ from the parameter list", {"property": "C19", "crate": "husage", "request": "(declared ...)", "symbolic": repr(got), "kinds": repr([l.decisions.get("g*.params[%d]#d" % i) for i in range(n)])})
        elif okv is None:
            ck.engine("declared: solver undecided")
    # native spot checks
    for src, a, lt, want in (("struct S<'a, T, const N: usize, U>;", "T", "'a", {"tp": True, "ntp": 2, "lt": True, "nlt": 1}),
                             ("struct S<'a, 'b, T>;", "N", "'c", {"tp": False, "ntp": 1, "lt": False, "nlt": 2}), ("struct S;", "T", "'a", {"tp": False, "ntp": 0, "lt": False, "nlt": 0})):
        nat = native.ask("(declared %s %s %s)" % (sx_str(src), sx_str(a), sx_str(lt)))
        if nat.get("result") == want:
            ck.native_agree += 1
        else:
            ck.report("declared:native", "native declared_* differ", {"property": "C19", "crate": "husage", "request": "(declared %s %s %s)" % (sx_str(src), sx_str(a), sx_str(lt)), "expected": want, "observed": nat})
    native.close()


# ------------------------------------------------------------------------------------------------ part (b): bounds of emitted impls
def bounds_job(ck, derive, body, loaded):
    """the impl a derive emits repeats the receiver's generics and where clause and bounds exactly the declared type parameters
    used by fields that are actually parsed (reads the abstract token list of derive_common's token model)"""
    from props import derive_common as D
    from props.derive_common import Focus
    from props.C12 import rep
    from vlib.view import L
    prog, natbin = loaded
    names = ["field_a", "field_b", "field_c"]
    if body == "struct":
        focus = Focus("bounds-struct", body=("Struct",), style=("Named",), nf=(1, 2), generics=(1, 2), fattrs=(0, 1), items=(1, 1), simple=True, item_names=["skip", "rename"],
                      field_names=names, where_clause=True)
    elif body == "enum":
        focus = Focus("bounds-enum", body=("Enum",), style=("Unnamed",), nf=(1, 1), nv=(1, 2), generics=(1, 2), vattrs=(0, 1), items=(1, 1), simple=True, item_names=["skip", "rename"],
                      field_names=names)
    else:
        # skipped fields inside a (non-skipped) struct variant: one variant, 1..2 named fields with 0..1 attribute each
        focus = Focus("bounds-enum-fields", body=("Enum",), style=("Named",), nf=(1, 2), nv=(1, 1), generics=(1, 2), fattrs=(0, 1), items=(1, 1), simple=True,
                      item_names=["skip", "rename"], field_names=names)
    I, e, leaves = D.explore(ck, prog, derive, focus)
    gt = prog.find_ty("syn::Generics")
    params_names = "TU"
    for l in leaves:
        if l.status != "returned":
            ck.obligations += 1
            ck.engine("bounds %s[%s]: leaf %s %s" % (derive, focus.tag, l.status, str(l.info or l.panics)[:200]))
            continue
        out = D.outcome(I, l)
        if out[0] != "impl":
            continue
        toks = l.ret.data[1]
        snap = None
        origins = []
        for t in toks:
            if t[0] == "node" and str(t[1]).startswith("syn::ImplGenerics") and len(t) > 4:
                snap = t[4]
            if t[0] == "node" and t[3]:
                origins.append(t[3])
        ng = l.decisions.get("di*.generics.params#len", 0)
        wc = l.decisions.get("di*.generics.where_clause#d")
        if snap is None:
            ck.obligations += 1
            ck.report("bounds:%s:no-generics" % derive, "the emitted impl carries no impl generics", {"property": "C19", "crate": "hmacro", "request": "(derive %s ..)" % derive})
            continue
        gv = view(I, l, snap, gt.id)
        # parameters of the emitted impl, by identity of origin
        pv = gv["params"]
        plist = []
        if isinstance(pv, dict):
            for pair in pv.get("inner", []):
                plist.append(pair[0] if isinstance(pair, (list, tuple)) else pair.get("0"))
            last = pv.get("last")
            if isinstance(last, dict) and last.get("_v") == "Some":
                plist.append(last["0"])
        good, why = True, ""
        if len(plist) != ng:
            good, why = False, "%d generic parameters in the impl for %d declared" % (len(plist), ng)
        # which declared parameters are used by parsed fields
        used = set()
        undecided = False
        dk = l.decisions.get("di*.data#d")

        def skipped(at):
            n = l.decisions.get(at + "#len", 0)
            for j in range(n):
                lst = "%s[%d].meta.List.0.tokens.parsed" % (at, j)
                if l.decisions.get("%s[%d].meta#d" % (at, j)) != 1 or l.decisions.get(lst + "#d") != 0:
                    continue
                for i in range(l.decisions.get(lst + ".Ok.0#len", 0)):
                    mb = "%s.Ok.0[%d].Meta.0" % (lst, i)
                    wk = mb + ".path.segments[0].ident#word"
                    if wk in l.decisions and focus.item_names[l.decisions[wk]] == "skip":
                        f = l.decisions.get(mb + "#d")
                        if f == 0:
                            return True
                        if f == 2:
                            bv = z3.Bool(mb + ".NameValue.0.value.Lit.0.lit.Bool.0.value")
                            fact = (l.extra.get("sfacts") or {}).get(mb + ".NameValue.0.value.Lit.0.lit.Str.0.value")
                            if fact and fact != "complex" and fact[0] == "eq":
                                return fact[1] == "true"
                            if ck.implies(l.pc, bv):
                                return True
                            if ck.implies(l.pc, z3.Not(bv)):
                                return False
                            return None
            return False

        def ty_param(tb):
            var = tb + ".Path.0.path.segments[0].ident.sym"
            fact = (l.extra.get("sfacts") or {}).get(var)
            if fact and fact != "complex" and fact[0] == "eq":
                return fact[1]
            return "other"
        if dk == 0:
            lst = "di*.data.Struct.0.fields.Named.0.named"
            for i in range(l.decisions.get(lst + "#len", 0)):
                sk = skipped("%s[%d].attrs" % (lst, i))
                if sk is None:
                    undecided = True
                elif not sk:
                    used.add(ty_param("%s[%d].ty" % (lst, i)))
        elif dk == 1:
            for i in range(l.decisions.get("di*.data.Enum.0.variants#len", 0)):
                vb = "di*.data.Enum.0.variants[%d]" % i
                sk = skipped(vb + ".attrs")
                if sk is None:
                    undecided = True
                elif not sk:
                    for fl in (vb + ".fields.Unnamed.0.unnamed", vb + ".fields.Named.0.named"):
                        for j in range(l.decisions.get(fl + "#len", 0)):
                            fsk = skipped("%s[%d].attrs" % (fl, j))
                            if fsk is None:
                                undecided = True
                            elif not fsk:
                                used.add(ty_param("%s[%d].ty" % (fl, j)))
        if undecided:
            ck.obligations += 1
            ck.engine("bounds %s[%s]: the value of a skip option is not decided on the leaf" % (derive, focus.tag))
            continue
        for i, p in enumerate(plist[:ng]):
            if not good:
                break
            tp = p.get("0") if isinstance(p, dict) and p.get("_v") == "Type" else None
            if tp is None:
                good, why = False, "parameter %d is not the declared type parameter" % i
                break
            idv = tp.get("ident")
            if not (hasattr(idv, "data") and idv.data[1] == ("in", "di*.generics.params[%d].Type.0.ident" % i)):
                good, why = False, "parameter %d is not the receiver's parameter (by origin)" % i
                break
            b = tp.get("bounds")
            has_bound = not isinstance(b, L)
            if has_bound:
                txt = rep(b)
                if "pq(::darling::" not in txt:
                    good, why = False, "the bounds of `%s` were rewritten but carry no conversion-trait bound" % params_names[i]
                    break
                if txt.count("pq(::darling::") != 1:
                    good, why = False, "`%s` carries the conversion-trait bound more than once" % params_names[i]
                    break
            want = params_names[i] in used
            if has_bound != want:
                good, why = False, "`%s` %s the conversion-trait bound although it is %s by a parsed field (fields use %s)" % (
                    params_names[i], "gets" if has_bound else "lacks", "not used" if has_bound else "used", sorted(used))
        if good and wc == 1 and not any(o == "di*.generics.where_clause.Some.0" or o.startswith("di*.generics.where_clause.Some.0.") for o in origins):
            good, why = False, "the receiver's where clause is not repeated in the impl"
        ck.reach("bounds:%s" % ("some" if used & set(params_names[:ng]) else "none"))
        if good:
            ck.ok()
            continue
        ck.obligations += 1
        src = D.Src(prog, l, lambda l=l: ck.model_of(l.pc), darling=True, item_names=focus.item_names)
        text = src.item_source(focus.field_names)
        # the witness' field types must follow the leaf: T / U / other
        req = "(derive_text %s %s)" % (derive, sx_str(text))
        native = Native(natbin)
        nat = native.ask(req)
        native.close()
        out_text = nat.get("result") if isinstance(nat, dict) else None
        if not isinstance(out_text, str) or " for Foo" not in out_text:
            ck.engine("bounds %s: %s; the native derive output could not be read (%s -> %s)" % (derive, why, req, str(nat)[:120]))
            continue
        header = out_text[:out_text.index(" for Foo")]
        native_bounded = {p_ for p_ in params_names[:ng] if re.search(r"\b%s : :: darling ::" % p_, header)}
        want_bounded = used & set(params_names[:ng])
        if native_bounded == want_bounded and "where clause" not in why:
            ck.engine("bounds %s: %s, but the natively emitted impl bounds exactly %s (%s)" % (derive, why, sorted(native_bounded), req))
            continue
        ck.report("bounds:%s:%s" % (derive, re.sub(r"[^a-z ]", "", why)[:40].strip()), why, {"property": "C19", "crate": "hmacro", "request": req, "used_by_parsed_fields": sorted(used),
                                                                                                  "natively_bounded": sorted(native_bounded), "impl_header": header[-300:], "observed": nat})


TOPS = ["Slice", "Array", "Ptr", "Reference", "Paren", "Group", "Tuple", "BareFn", "Path", "TraitObject", "ImplTrait"]


def prepare(ck):
    ck.crate = "husage"
    quick = ck.tier == "quick"
    prog = Program(build.dump_mir("husage", opts=OPTS))
    natbin = build.build_native("husage")
    ck.programs.add("husage")
    jobs = []
    # every type form at depth 0 with a fully symbolic query set (0..2 names, possibly equal) and purpose
    jobs.append(lambda sub: explore_job(sub, prog, natbin, "entry_tp_type", "tp", Pol(0), "d0", quick))
    jobs.append(lambda sub: explore_job(sub, prog, natbin, "entry_lt_type", "lt", Pol(0), "d0", quick))
    D = 1
    for top in TOPS:
        heavy = top in ("Path", "TraitObject", "ImplTrait")
        for entry, mode in (("entry_tp_type", "tp"), ("entry_lt_type", "lt")):
            if quick:
                pols = [("", Pol(1, top=(top,), nfix=(1 if heavy else 2), wide=not heavy, leaf_types=("Path", "Macro") if heavy else LEAF_TYPES))]
                if top == "Path":
                    pols.append(("seg2", Pol(1, top=(top,), nfix=1, wide=False, leaf_types=("Path", "Macro"), seg2=True)))
            else:
                if heavy:
                    pols = [("", Pol(1, top=(top,), nfix=None, wide=False, leaf_types=("Path", "Macro")))]
                    if top == "Path":
                        pols.append(("seg2", Pol(1, top=(top,), nfix=2, wide=False, leaf_types=("Path", "Macro"), seg2=True)))
                    elif mode == "tp":
                        pols.append(("segs", Pol(1, top=(top,), nfix=1, wide="segments", leaf_types=("Path", "Macro"))))
                else:
                    pols = [("", Pol(1, top=(top,), nfix=None, wide=True))]
                    if top != "BareFn":
                        pols.append(("d2", Pol(2, top=(top,), nfix=1, wide=False, leaf_types=("Path", "Macro"))))
            for tg, pol in pols:
                jobs.append(lambda sub, top=top, entry=entry, mode=mode, pol=pol, tg=tg: explore_job(sub, prog, natbin, entry, mode, pol, "%s:%s" % (top, tg or "d1"), quick))
    # collections: union over the members
    for entry, mode in (("entry_tp_vec", "tp"), ("entry_tp_vec_cloned", "tp"), ("entry_lt_vec", "lt")):
        jobs.append(lambda sub, entry=entry, mode=mode: explore_job(sub, prog, natbin, entry, mode, Pol(0, nfix=2, roots=("tys*[0]", "tys*[1]")), "vec", quick, coll="vec"))
    jobs.append(lambda sub: explore_job(sub, prog, natbin, "entry_tp_fields", "tp", Pol(0, nfix=2), "fields", quick, coll="fields"))
    jobs.append(lambda sub: declared_job(sub, prog, natbin))
    # part (b): the bounds of emitted impls (FromMeta and FromDeriveInput derives; struct and enum receivers)
    from props import derive_common
    loaded = derive_common.load()        # dumped once here, not concurrently inside the workers
    ck.programs.add("hmacro (darling_core::derive::from_meta / from_derive_input)")
    for dv in ("from_meta", "from_derive_input"):
        for body in (("struct", "enum", "enum-fields") if dv == "from_meta" else ("struct",)):
            jobs.append(lambda sub, dv=dv, body=body: bounds_job(sub, dv, body, loaded))
    ck.bounds = {"type_nesting_depth": "1 for every outermost form" + ("" if quick else "; 2 below wrappers and tuples"),
                 "query_set": "0..2 symbolic names (equal or not) at depth 0 and for collections; 1..2 names below",
                 "collections_per_node": "0..2 at the outermost level, 0..1 below (0..1 everywhere under path / trait-object / impl-trait forms)",
                 "path_segments": "1..2 outermost (two segments with arguments on the second one as a separate exploration), 1 below",
                 "generic_argument_nesting": 1, "names": "unbounded strings", "collection entries": "Vec<Type> of 0..2 depth-0 types; Fields of 0..2 fields"}
    ck.outside = ["part (b) of the property: generics / where clause / bounds of emitted impls (token output of the derives)",
                  "`use<..>` and verbatim (unstable syntax) bounds: the analysis panics on them deliberately (documented TODO); not a field-position form",
                  "higher-ranked binders `for<'a>` and generic associated types", "deeper nesting / wider collections than the bounds"]
    ck.assumptions = ["hash sets are modelled as insertion-ordered association lists with the element equality (hash order is unobservable through contains/len)",
                      "identifier equality is string equality of the symbols"]
    return jobs


def main():
    ck = Check("C19")
    ck.run_jobs(prepare(ck))
    ck.require_reached(["uses:0", "uses:1", "uses:2", "declared", "bounds:some", "bounds:none"])
    ck.finish()


if __name__ == "__main__":
    main()
