"""C09 - derived enum receivers select exactly one declared, non-skipped variant.

The derive-generated from_list / from_string / from_word / from_none (and the default from_meta on top of them) of a
family of enum receivers are executed on symbolic inputs and every leaf is compared with a reference model."""
import os
import sys
import z3

sys.path.insert(0, os.path.dirname(os.path.dirname(os.path.abspath(__file__))))
from vlib import build
from vlib.prop import Check, Native, sx_str
from vlib.view import view, L
from mirsym import Program, Interp, models, Lazy, Opaque, syn_models, harness_models  # noqa: F401
from props import recv_spec as S
from props.recv_common import (Pol, Oracle, E, list_items, classify_names, flat_errors, match_errors, value_eqs, Text, render_items,
                               ident_validity, native_value, native_errors, compare_native_errors_nospan, model_str, OPTS, replay_panic, render_meta_text)


def variants_by_name(en):
    return {S.variant_name(en, v): v for v in en["variants"] if not v["skip"]}


def pseudo_struct(en, v):
    return S.R("%s::%s" % (en["name"], v["name"]), v["fields"], rename_all=en["rename_all"], allow_unknown=en["allow_unknown"])


def inner_none(ty):
    return S.OPQN_NONE if ty == "OpqN" else None


def expect_string(en, cls, svar):
    """('ok', (variant, payload)) | ('err', [E])"""
    vs = variants_by_name(en)
    if cls is None:
        return ("err", [E("UnknownValue", svar)])
    v = vs[cls]
    if v["kind"] == "unit":
        return ("ok", (v["name"], None))
    if v["kind"] == "newtype":
        n = inner_none(v["ty"])
        if n is not None:
            return ("ok", (v["name"], {"0": n}))
        return ("err", [E("format", "literal")])
    return ("err", [E("format", "literal")])


def expect_list(en, orc, st, listname):
    items = list_items(st, listname)
    if items is None:
        return ("none", None)
    if len(items) == 0:
        return ("err", [E("TooFewItems", None)])
    if len(items) >= 2:
        return ("err", [E("TooManyItems", None)])
    it = items[0]
    if it.kind is None:
        return ("none", None)
    if it.kind == "lit":
        return ("err", [E("format", "literal")])
    vs = variants_by_name(en)
    classify_names(orc.ck, st, [it], list(vs))
    if it.cls is None or it.cls not in vs:
        # no selectable variant carries this name (a name the implementation compared with, e.g. a skipped variant's, is still unknown)
        return ("err", [E("unknown", it.namevar, span=("node", it.meta))])
    v = vs[it.cls]
    name = it.cls
    form = st.decisions.get(it.meta + "#d")
    nots = st.decisions.get(it.meta + "#not") or frozenset()
    if v["kind"] == "unit":
        if form is None and 0 not in nots:
            return ("none", None)
        return ("ok", (v["name"], None)) if form == 0 else ("err", [E("format", "non-path")])
    if v["kind"] == "newtype":
        kind, val = orc.conv_leaf(S.F("0", ty=v["ty"]), it, None)
        if kind == "ok":
            return ("ok", (v["name"], {"0": val}))
        if kind == "err":
            for e in val:
                # the generated arm only adds the location; spans are not added here
                e.span = None
                e.at(name)
            return ("err", val)
        return (kind, val)
    if form is None and 1 not in nots:
        return ("none", None)
    if form != 1:
        return ("err", [E("format", "non-list")])
    pd = st.decisions.get(it.meta + ".List.0.tokens.parsed#d")
    if pd is None:
        return ("none", None)
    if pd == 1:
        return ("err", [E("syn", it.meta + ".List.0.tokens.parsed.Err.0", own_span=("in", it.meta + ".List.0.tokens.parsed.Err.0.span"))])
    sub = list_items(st, it.meta + ".List.0.tokens.parsed.Ok.0")
    if sub is None:
        return ("none", None)
    kind, val = orc.expect_struct(pseudo_struct(en, v), sub)
    if kind == "ok":
        return ("ok", (v["name"], val))
    if kind == "err":
        return ("err", [e.at(name) for e in val])
    return (kind, val)


def check_value(ck, l, exp, got):
    """exp = (variant, fields|None); got = viewed enum value"""
    vname, fields = exp
    if not (isinstance(got, dict) and got.get("_v") == vname):
        return False, "variant %r, expected %s" % (got.get("_v") if isinstance(got, dict) else got, vname)
    if fields is None:
        return True, ""
    eqs = []
    if not value_eqs(fields, got, eqs):
        return False, "payload %r differs from %r" % (got, fields)
    if eqs:
        okv, _ = ck.smt_valid(l.pc, z3.And(eqs))
        if not okv:
            return False, "payload values differ"
    return True, ""


def enum_job(ck, prog, natbin, ename, quick):
    en = S.ENUM_BY_NAME[ename]
    native = Native(natbin)
    skipped = [v["name"] for v in en["variants"] if v["skip"]]
    uniq = [0]
    K = 2
    nestedK = 1 if quick else 2

    def judge(entry, l, I, e, kind, val, req, exp_native_ok):
        got = view(I, l, l.ret, e.local_tys[0])
        got_ok = isinstance(got, dict) and got.get("_v") == "Ok"
        if got_ok and isinstance(got["0"], dict) and got["0"].get("_v") in skipped:
            ck.obligations += 1
            nat = native.ask(req) if req is not None else {}
            r = nat.get("result", {}) if isinstance(nat, dict) else {}
            if isinstance(r, dict) and "ok" in r and r["ok"].get("v") in skipped:
                ck.report("%s:skipped-variant" % ename, "a skipped variant was produced", {"property": "C09", "request": req, "observed": nat, "symbolic": repr(got)[:300]})
            else:
                ck.engine("%s: symbolic run produced a skipped variant but the native run did not (%s)" % (ename, req))
            return
        good, why = True, ""
        if kind == "ok":
            ck.reach("ok")
            ck.reach("ok:" + val[0])
            if not got_ok:
                good, why = False, "rejected; the declaration selects variant %s" % val[0]
            else:
                good, why = check_value(ck, l, val, got["0"])
        else:
            for x in val:
                ck.reach("err:" + x.kind)
            if got_ok:
                good, why = False, "silently chose %r; expected errors %r" % (got["0"].get("_v"), val)
            else:
                good, why = match_errors(val, flat_errors(got["0"], l), l, check_spans=False)
        if good:
            ck.ok()
        else:
            ck.obligations += 1
        if req is None:
            if not good:
                ck.engine("%s %s: %s (no native request)" % (ename, entry, why))
            return
        if good and (hash(req) % (2 if quick else 4)):
            return
        nat = native.ask(req)
        r = nat.get("result", {}) if isinstance(nat, dict) else {}
        if kind == "ok":
            agree = isinstance(r, dict) and "ok" in r and r["ok"].get("v") == val[0]
        else:
            agree = isinstance(r, dict) and "err" in r and len(r["err"]) == len(val)
        if good and agree:
            ck.native_agree += 1
            if len(ck.samples) < 8 and kind == "ok":
                ck.sample({"enum": ename, "entry": entry, "request": req, "native": r})
        elif good and not agree:
            ck.report("%s:%s:native" % (ename, entry), "native outcome differs from the reference model", {"property": "C09", "request": req, "expected": repr((kind, val))[:300], "observed": nat})
        elif not good and agree:
            ck.engine("%s %s: %s, but the native run agrees with the model (%s)" % (ename, entry, why, req))
        else:
            ck.report("%s:%s:%s" % (ename, entry, kind if kind == "ok" else "+".join(sorted(set(x.kind for x in val)))), why,
                      {"property": "C09", "request": req, "expected": repr((kind, val))[:300], "observed": nat, "symbolic": repr(got)[:600]})

    # ---- from_string
    I = Interp(prog, models.all_models(OPTS), Pol(K, nestedK), timeout_ms=ck.timeout_ms)
    e = prog.entry("entry_%s_string_flat" % ename)
    leaves = I.explore(e, [Lazy("s", e.local_tys[1])])
    ck.absorb(I, leaves, "entry_%s_string_flat" % ename)
    ck.check_exhaustive(I, leaves, ename + ":string")
    vs = variants_by_name(en)
    for l in leaves:
        if l.status != "returned":
            ck.obligations += 1
            ck.engine("%s from_string: %s %s" % (ename, l.status, l.info or l.panics))
            continue
        sv = z3.String("s*")
        facts = (l.extra.get("sfacts") or {}).get("s*")
        cls = None
        if facts and facts != "complex" and facts[0] == "eq":
            cls = facts[1] if facts[1] in vs else None
            text = facts[1]
        else:
            text = "zzunknown"
            if not (facts and facts != "complex" and set(vs) <= set(facts[1])) and vs:
                ck.engine("%s from_string: leaf not uniform" % ename)
                continue
        kind, val = expect_string(en, cls, sv)
        judge("from_string", l, I, e, kind, val, "(from_string %s %s)" % (ename, sx_str(text)), None)
    # a skipped variant's name is just an unknown string
    for v in en["variants"]:
        if v["skip"]:
            nm = S.variant_name(en, v)
            nat = native.ask("(from_string %s %s)" % (ename, sx_str(nm)))
            if "err" in nat.get("result", {}):
                ck.native_agree += 1
            else:
                ck.report("%s:skipped-by-string" % ename, "skipped variant selected by its name", {"property": "C09", "request": "(from_string %s %s)" % (ename, sx_str(nm)), "observed": nat})
    # ---- from_list
    I = Interp(prog, models.all_models(OPTS), Pol(K, nestedK), timeout_ms=ck.timeout_ms)
    e = prog.entry("entry_%s_list_flat" % ename)
    leaves = I.explore(e, [Lazy("items", e.local_tys[1])])
    ck.absorb(I, leaves, "entry_%s_list_flat" % ename)
    ck.check_exhaustive(I, leaves, ename + ":list")
    for l in leaves:
        if l.status == "panicked":
            mdl = ck.model_of(list(l.pc) + ident_validity(l)) or ck.model_of(l.pc)
            text = Text()
            render_items(l, mdl, "items*", text, uniq)
            replay_panic(ck, native, ename + ":from_list", l, "(from_list %s %s)" % (ename, sx_str(text.s)))
            continue
        if l.status != "returned":
            ck.obligations += 1
            ck.engine("%s from_list: %s %s" % (ename, l.status, l.info or l.panics))
            continue
        orc = Oracle(ck, l)
        kind, val = expect_list(en, orc, l, "items*")
        if kind in ("none", "unsupported") or orc.undetermined:
            ck.engine("%s from_list: oracle could not classify a leaf (%r)" % (ename, l.decisions))
            continue
        mdl = ck.model_of(list(l.pc) + ident_validity(l)) or ck.model_of(l.pc)
        text = Text()
        render_items(l, mdl, "items*", text, uniq)
        judge("from_list", l, I, e, kind, val, "(from_list %s %s)" % (ename, sx_str(text.s)), None)
    # ---- from_word / from_none
    I = Interp(prog, models.all_models(OPTS), Pol(K, nestedK), timeout_ms=ck.timeout_ms)
    e = prog.entry("entry_%s_word_flat" % ename)
    leaves = I.explore(e, [])
    ck.absorb(I, leaves, "entry_%s_word_flat" % ename)
    wv = [v for v in en["variants"] if v["word"]]
    if wv:
        wexp = ("ok", (wv[0]["name"], None))
    elif en["from_word"]:
        wexp = ("ok", ([v["name"] for v in en["variants"] if S.variant_name(en, v) == en["from_word"]][0], None))
    else:
        wexp = ("err", [E("format", "word")])
    for l in leaves:
        if l.status == "returned":
            judge("from_word", l, I, e, wexp[0], wexp[1], None, None)
    e = prog.entry("entry_%s_none" % ename)
    leaves = I.explore(e, [])
    ck.absorb(I, leaves, "entry_%s_none" % ename)
    for l in leaves:
        got = view(I, l, l.ret, e.local_tys[0]) if l.status == "returned" else None
        if en["from_none"]:
            want = [v["name"] for v in en["variants"] if S.variant_name(en, v) == en["from_none"]][0]
            ok = isinstance(got, dict) and got.get("_v") == "Some" and got["0"].get("_v") == want
        else:
            ok = isinstance(got, dict) and got.get("_v") == "None"
        if ok:
            ck.ok()
            ck.reach("none")
        else:
            ck.obligations += 1
            ck.report("%s:from_none" % ename, "value for the absent item differs from the declaration", {"property": "C09", "request": "(word_none %s)" % ename, "symbolic": repr(got)})
    nat = native.ask("(word_none %s)" % ename)
    r = nat.get("result", {})
    if ("ok" in r.get("word", {})) == (wexp[0] == "ok") and (r.get("none") is not None) == bool(en["from_none"]):
        ck.native_agree += 1
    else:
        ck.report("%s:word_none:native" % ename, "native from_word/from_none differ from the declaration", {"property": "C09", "request": "(word_none %s)" % ename, "observed": nat})
    # ---- from_meta: default dispatch on top of the generated hooks
    I = Interp(prog, models.all_models(OPTS), Pol(K, nestedK), timeout_ms=ck.timeout_ms)
    e = prog.entry("entry_%s_meta_flat" % ename)
    leaves = I.explore(e, [Lazy("item", e.local_tys[1])])
    ck.absorb(I, leaves, "entry_%s_meta_flat" % ename)
    ck.check_exhaustive(I, leaves, ename + ":meta")
    lit_t = prog.find_ty("syn::Lit")
    expr_t = prog.find_ty("syn::Expr")
    for l in leaves:
        if l.status == "panicked":
            mdl = ck.model_of(list(l.pc) + ident_validity(l)) or ck.model_of(l.pc)
            replay_panic(ck, native, ename + ":from_meta", l, "(from_meta %s %s)" % (ename, sx_str(render_meta_text(l, mdl, uniq).s)))
            continue
        if l.status != "returned":
            ck.obligations += 1
            ck.engine("%s from_meta: %s %s" % (ename, l.status, l.info or l.panics))
            continue
        form = l.decisions.get("item*#d")
        orc = Oracle(ck, l)
        req = None
        if form == 0:
            kind, val = wexp
            if kind == "err":
                val = [E("format", "word")]
            req = "(from_meta %s \"zz\")" % ename
        elif form == 1:
            pd = l.decisions.get("item*.List.0.tokens.parsed#d")
            if pd == 1:
                kind, val = "err", [E("syn", "item*.List.0.tokens.parsed.Err.0")]
            else:
                kind, val = expect_list(en, orc, l, "item*.List.0.tokens.parsed.Ok.0")
                if kind in ("none", "unsupported") or orc.undetermined:
                    ck.engine("%s from_meta(list): oracle could not classify a leaf" % ename)
                    continue
                mdl = ck.model_of(list(l.pc) + ident_validity(l)) or ck.model_of(l.pc)
                text = Text()
                render_items(l, mdl, "item*.List.0.tokens.parsed.Ok.0", text, uniq)
                req = "(from_meta %s %s)" % (ename, sx_str("zz(%s)" % text.s))
        else:
            # name = value: only a string literal can select a variant (through from_string)
            ex = "item*.NameValue.0.value"
            d = l.decisions.get(ex + "#d")
            vn = expr_t.adt["variants"][d]["name"] if d is not None else None
            ld = l.decisions.get(ex + ".Lit.0.lit#d") if vn == "Lit" else None
            ln = lit_t.adt["variants"][ld]["name"] if ld is not None else None
            if vn == "Lit" and ln == "Str":
                svar = z3.String(ex + ".Lit.0.lit.Str.0.value")
                facts = (l.extra.get("sfacts") or {}).get(svar.decl().name())
                cls = None
                txt = "zzunknown"
                if facts and facts != "complex" and facts[0] == "eq":
                    cls = facts[1] if facts[1] in vs else None
                    txt = facts[1]
                kind, val = expect_string(en, cls, svar)
                req = "(from_meta %s %s)" % (ename, sx_str('zz = "%s"' % txt))
            elif vn == "Group":
                continue   # transparent groups: routing is C15's subject
            else:
                kind, val = "err", [E("anyformat", None)]
        judge("from_meta", l, I, e, kind, val, req, None)
    native.close()


def prepare(ck):
    """configure `ck` and return the list of jobs of this property's exploration"""
    ck.crate = "hrecv"
    quick = ck.tier == "quick"
    names = [en["name"] for en in S.ENUMS]
    ck.bounds = {"enum_receivers": names, "list_items": "0..2 (0 -> too few, 2 -> too many)", "struct_variant_items": "0..%d" % (1 if quick else 2),
                 "strings / names": "unbounded (z3 strings)"}
    ck.outside = ["enum receivers outside the generated family (props/recv_spec.py ENUMS)", "lists of more than 2 items (all rejected by the same arm)",
                  "tuple variants with more than one field (rejected at derive time: C10)"]
    ck.assumptions = ["newtype payload conversions are the opaque Opq/OpqN conversions", "token parsing of a struct-variant body is an uninterpreted outcome",
                      "did_you_mean is uninterpreted here (C17)"]
    prog = Program(build.dump_mir("hrecv", opts=OPTS))
    natbin = build.build_native("hrecv")
    for n in names:
        ck.programs.add("hrecv::%s" % n)
    return [(lambda sub, n=n: enum_job(sub, prog, natbin, n, quick)) for n in names]


def main():
    ck = Check("C09")
    ck.run_jobs(prepare(ck))
    ck.require_reached(["ok", "err:unknown", "err:TooFewItems", "err:TooManyItems", "err:format", "err:UnknownValue", "none"])
    ck.finish()


if __name__ == "__main__":
    main()
