"""C11 - scalar conversions are exact: in range means that value, otherwise an error.

The real MIR of `<T as FromMeta>::{from_string, from_value, from_meta}`, `syn::LitInt::base10_parse` and of std's
`from_str_radix`/`from_ascii_radix`, `NonZero::from_str`, `<bool as FromStr>`, `str::chars` is executed on symbolic
byte strings; every leaf is compared with an arithmetic specification over unbounded integers (z3 Int)."""
import os
import sys
import z3

sys.path.insert(0, os.path.dirname(os.path.dirname(os.path.abspath(__file__))))
from vlib import build
from vlib.prop import Check, Native, sx_str
from vlib.view import view, L
from mirsym import Program, Interp, models, Lazy, Opaque, ByteSeq, syn_models, harness_models  # noqa: F401
from mirsym.lazy import decide_len, constrain_once
from props.recv_common import actual_errors

OPTS = ("no_dym",)

INT_TYPES = {}
for _w in (8, 16, 32, 64, 128):
    INT_TYPES["u%d" % _w] = (_w, False, False)
    INT_TYPES["i%d" % _w] = (_w, True, False)
    INT_TYPES["NonZeroU%d" % _w] = (_w, False, True)
    INT_TYPES["NonZeroI%d" % _w] = (_w, True, True)
INT_TYPES["usize"] = (64, False, False)
INT_TYPES["isize"] = (64, True, False)
INT_TYPES["NonZeroUsize"] = (64, False, True)
INT_TYPES["NonZeroIsize"] = (64, True, True)


def max_digits(bits):
    return len(str(1 << bits))


class Pol(syn_models.SynPolicy):
    group_depth = 1

    def __init__(self, D):
        super().__init__()
        self.D = D

    def variants(self, I, st, lz, t):
        if t.adt and t.adt["name"].endswith("error::kind::ErrorKind"):
            return list(range(10))
        return syn_models.SynPolicy.variants(self, I, st, lz, t)

    def str_content(self, I, st, name):
        if name == "s*" or name.endswith(".value"):
            n = decide_len(I, st, name, 0, self.D)
            bs = []
            for i in range(n):
                b = z3.BitVec("%s[%d]" % (name, i), 8)
                constrain_once(st, "%s[%d]" % (name, i), z3.ULT(b, 128))   # ASCII (stated bound)
                bs.append(b)
            return ByteSeq(bs)
        return None

    def digits_content(self, I, st, name, kind):
        if kind != "LitInt":
            return None
        n = decide_len(I, st, name, 1, self.D)
        bs = []
        for i in range(n):
            b = z3.BitVec("%s[%d]" % (name, i), 8)
            dig = z3.And(z3.UGE(b, 48), z3.ULE(b, 57))
            if i == 0 and n >= 2:
                constrain_once(st, "%s[%d]" % (name, i), z3.Or(dig, b == 45))   # syn: -?[0-9]+
            else:
                constrain_once(st, "%s[%d]" % (name, i), dig)
            bs.append(b)
        return ByteSeq(bs)

    def len_bounds(self, I, st, name, t):
        if name.endswith(".segments"):
            return (1, 1)
        if name.endswith(".parsed.Ok.0"):
            return (0, 1)
        return (0, 1)


def spec_int(bytes_, bits, signed, nonzero):
    """(accepts, value) of Rust's `str::parse::<iN>` on the byte string, as pure bit-vector terms of a width that cannot
    overflow for the given number of digits (value is a signed W-bit term)"""
    n = len(bytes_)
    W = max(bits, 4 * n) + 9
    if n == 0:
        return z3.BoolVal(False), z3.BitVecVal(0, W), W
    b0 = bytes_[0]

    def digits_from(k):
        ds = bytes_[k:]
        if not ds:
            return z3.BoolVal(False), z3.BitVecVal(0, W)
        ok = z3.And([z3.And(z3.UGE(d, 48), z3.ULE(d, 57)) for d in ds])
        val = z3.BitVecVal(0, W)
        for d in ds:
            val = val * z3.BitVecVal(10, W) + (z3.ZeroExt(W - 8, d) - z3.BitVecVal(48, W))
        return ok, val
    ok0, v0 = digits_from(0)
    ok1, v1 = digits_from(1)
    lo = -(1 << (bits - 1)) if signed else 0
    hi = (1 << (bits - 1)) - 1 if signed else (1 << bits) - 1
    plus = b0 == 43
    minus = b0 == 45
    if signed:
        acc = z3.If(plus, ok1, z3.If(minus, ok1, ok0))
        val = z3.If(plus, v1, z3.If(minus, -v1, v0))
    else:
        acc = z3.If(plus, ok1, ok0)     # a leading '-' is not a digit for unsigned targets
        val = z3.If(plus, v1, v0)
    inr = z3.And(val >= z3.BitVecVal(lo, W), val <= z3.BitVecVal(hi, W))
    if nonzero:
        inr = z3.And(inr, val != 0)
    return z3.And(acc, inr), val, W


def widen(gv, bits, signed, W):
    if isinstance(gv, int) and not z3.is_expr(gv):
        return z3.BitVecVal(gv, W)
    return z3.SignExt(W - gv.size(), gv) if signed else z3.ZeroExt(W - gv.size(), gv)


def int_of_view(v):
    """the integer payload of a viewed uN / iN / NonZero<..> value"""
    while isinstance(v, dict):
        ks = [k for k in v if not k.startswith("_")]
        if not ks:
            return None
        v = v[ks[0]]
    if isinstance(v, L):
        return None
    return v


def as_text(bs, mdl):
    out = []
    for b in bs:
        v = mdl.eval(b, model_completion=True).as_long()
        out.append(v)
    try:
        return bytes(out).decode("ascii")
    except UnicodeDecodeError:
        return None


def int_job(ck, prog, natbin, tname, D, quick):
    bits, signed, nonzero = INT_TYPES[tname]
    native = Native(natbin)
    if not quick:
        ck.timeout_ms = 300000       # the wide multiply-by-ten chains need more than the default minute on a few obligations
        ck._s = None
    pol = Pol(D)
    # ---------------- from_string on an arbitrary ASCII string
    I = Interp(prog, models.all_models(OPTS), pol, timeout_ms=ck.timeout_ms)
    e = prog.entry("entry_s_%s_str" % tname)
    leaves = I.explore(e, [Lazy("s", e.local_tys[1])])
    ck.absorb(I, leaves, "entry_s_%s_str" % tname)
    ck.check_exhaustive(I, leaves, "%s:str" % tname)
    k = 0
    for l in leaves:
        if l.status != "returned":
            ck.obligations += 1
            mdl = ck.model_of(l.pc)
            n = l.decisions.get("s*#len", 0)
            txt = as_text([z3.BitVec("s*[%d]" % i, 8) for i in range(n)], mdl) if mdl is not None else None
            if txt is not None:
                req = "(scalar %s str %s)" % (tname, sx_str(txt))
                nat = native.ask(req)
                if "panic" in nat:
                    ck.report("%s:str:panic" % tname, "from_string panics", {"property": "C11", "crate": "hconv", "request": req, "observed": nat})
                    continue
            ck.engine("%s from_string: leaf %s %s" % (tname, l.status, l.info or l.panics))
            continue
        n = l.decisions.get("s*#len", 0)
        bs = [z3.BitVec("s*[%d]" % i, 8) for i in range(n)]
        acc, val, W = spec_int(bs, bits, signed, nonzero)
        got = view(I, l, l.ret, e.local_tys[0])
        is_ok = isinstance(got, dict) and got.get("_v") == "Ok"
        if is_ok:
            gv = int_of_view(got["0"])
            if gv is not None:
                claim = z3.And(acc, val == widen(gv, bits, signed, W))
            else:
                claim = z3.BoolVal(False)
            ck.reach("ok")
        else:
            claim = z3.Not(acc)
            errs = actual_errors(got["0"], l)
            if len(errs) != 1 or errs[0][0] != "UnknownValue":
                claim = z3.BoolVal(False)
            ck.reach("err")
        okv, mdl = ck.smt_valid(l.pc, claim)
        k += 1
        if okv:
            if k % (3 if quick else 7) == 0:
                m = ck.model_of(l.pc)
                txt = as_text(bs, m) if m is not None else None
                if txt is not None and all(32 <= ord(c) < 127 for c in txt):
                    nat = native.ask("(scalar %s str %s)" % (tname, sx_str(txt)))
                    r = nat.get("result", {})
                    if ("ok" in r) == is_ok:
                        ck.native_agree += 1
                        if len(ck.samples) < 6:
                            ck.sample({"type": tname, "string": txt, "native": r, "leaf_pc": [str(c)[:90] for c in l.pc][:6]})
                    else:
                        ck.report("%s:str:native" % tname, "native outcome differs", {"property": "C11", "crate": "hconv", "request": "(scalar %s str %s)" % (tname, sx_str(txt)), "observed": nat, "symbolic_ok": is_ok})
        elif okv is False:
            txt = as_text(bs, mdl)
            req = "(scalar %s str %s)" % (tname, sx_str(txt if txt is not None else "?"))
            nat = native.ask(req) if txt is not None else {}
            exp_acc = bool(z3.is_true(mdl.eval(acc, model_completion=True)))
            exp_val = mdl.eval(val, model_completion=True).as_signed_long() if exp_acc else None
            r = nat.get("result", {}) if isinstance(nat, dict) else {}
            native_ok = "ok" in r
            native_val = int(str(r["ok"]).strip('"')) if native_ok else None
            if txt is not None and native_ok == exp_acc and (not exp_acc or native_val == exp_val):
                ck.engine("%s from_string(%r): symbolic leaf disagrees with the arithmetic spec but the native run agrees" % (tname, txt))
            else:
                ck.report("%s:str:%s" % (tname, "accepts" if is_ok else "rejects"),
                          "from_string(%r) -> %s, the type's standard parsing says %s" % (txt, "Ok" if is_ok else "Err", ("Ok(%s)" % exp_val) if exp_acc else "Err"),
                          {"property": "C11", "crate": "hconv", "request": req, "observed": nat, "expected_ok": exp_acc, "expected_value": exp_val})
    # ---------------- from_meta: every form; unquoted integer literals and quoted strings
    I = Interp(prog, models.all_models(OPTS), pol, timeout_ms=ck.timeout_ms)
    e = prog.entry("entry_s_%s_meta" % tname)
    leaves = I.explore(e, [Lazy("item", e.local_tys[1])])
    ck.absorb(I, leaves, "entry_s_%s_meta" % tname)
    ck.check_exhaustive(I, leaves, "%s:meta" % tname)
    lit_t = prog.find_ty("syn::Lit")
    expr_t = prog.find_ty("syn::Expr")
    for l in leaves:
        if l.status != "returned":
            ck.obligations += 1
            ck.engine("%s from_meta: leaf %s %s" % (tname, l.status, l.info or l.panics))
            continue
        got = view(I, l, l.ret, e.local_tys[0])
        is_ok = isinstance(got, dict) and got.get("_v") == "Ok"
        form = l.decisions.get("item*#d")
        src = None     # the digit string that denotes the value, if the item is a literal of a convertible kind
        ex = "item*.NameValue.0.value"
        while form == 2:
            d = l.decisions.get(ex + "#d")
            vn = expr_t.adt["variants"][d]["name"] if d is not None else None
            if vn == "Group":
                ex = ex + ".Group.0.expr.0.pointer.pointer*"
                continue
            if vn == "Lit":
                ld = l.decisions.get(ex + ".Lit.0.lit#d")
                ln = lit_t.adt["variants"][ld]["name"] if ld is not None else None
                if ln == "Int":
                    src = ex + ".Lit.0.lit.Int.0.digits"
                elif ln == "Str":
                    src = ex + ".Lit.0.lit.Str.0.value"
            break
        if src is not None:
            n = l.decisions.get(src + "#len")
            if n is None:
                ck.engine("%s from_meta: literal length undecided" % tname)
                continue
            bs = [z3.BitVec("%s[%d]" % (src, i), 8) for i in range(n)]
            acc, val, W = spec_int(bs, bits, signed, nonzero)
            if is_ok:
                gv = int_of_view(got["0"])
                claim = z3.And(acc, val == widen(gv, bits, signed, W))
            else:
                claim = z3.Not(acc)
            ck.reach("lit:" + ("Int" if src.endswith("digits") else "Str") + (":ok" if is_ok else ":err"))
        else:
            # wrong meta form / wrong literal kind: must be an error
            claim = z3.BoolVal(not is_ok)
            ck.reach("wrongform")
        good = True
        if not is_ok:
            errs = actual_errors(got["0"], l)
            # never unspanned: the error carries a span inside the item
            good = len(errs) == 1 and errs[0][3] is not None and errs[0][3][0] in ("node", "in") and errs[0][3][1].startswith("item*")
        if not good:
            ck.obligations += 1
            ck.report("%s:meta:span" % tname, "conversion error without a span inside the item: %r" % (errs,),
                      {"property": "C11", "crate": "hconv", "request": "(scalar %s meta \"x = true\")" % tname, "observed": repr(errs)})
            continue
        okv, mdl = ck.smt_valid(l.pc, claim)
        if okv is False:
            txt = as_text(bs, mdl) if src is not None else None
            quoted = src is not None and src.endswith("value")
            mtxt = None if txt is None else ("x = \"%s\"" % txt if quoted else "x = %s" % txt)
            if mtxt is not None and (quoted or not txt.startswith("-")):
                req = "(scalar %s meta %s)" % (tname, sx_str(mtxt))
                nat = native.ask(req)
                r = nat.get("result", {}) if isinstance(nat, dict) else {}
                exp_acc = bool(z3.is_true(mdl.eval(acc, model_completion=True)))
                if ("ok" in r) == exp_acc:
                    ck.engine("%s from_meta(%s): symbolic leaf disagrees with the spec but native agrees" % (tname, mtxt))
                else:
                    ck.report("%s:meta:%s" % (tname, "accepts" if is_ok else "rejects"), "from_meta(%s) disagrees with the type's standard parsing" % mtxt,
                              {"property": "C11", "crate": "hconv", "request": req, "observed": nat, "expected_ok": exp_acc})
            else:
                ck.engine("%s from_meta: obligation failed without a textual witness (%r)" % (tname, l.decisions))
    native.close()


def misc_job(ck, prog, natbin, quick):
    """bool / char / String"""
    native = Native(natbin)
    pol = Pol(5 if quick else 6)
    # bool
    I = Interp(prog, models.all_models(OPTS), pol, timeout_ms=ck.timeout_ms)
    e = prog.entry("entry_s_bool_str")
    leaves = I.explore(e, [Lazy("s", e.local_tys[1])])
    ck.absorb(I, leaves, "entry_s_bool_str")
    ck.check_exhaustive(I, leaves, "bool:str")
    for l in leaves:
        n = l.decisions.get("s*#len", 0)
        bs = [z3.BitVec("s*[%d]" % i, 8) for i in range(n)]

        def is_word(w):
            return z3.And([b == ord(c) for b, c in zip(bs, w)]) if len(w) == n else z3.BoolVal(False)
        got = view(I, l, l.ret, e.local_tys[0]) if l.status == "returned" else None
        if got is None:
            ck.obligations += 1
            ck.engine("bool from_string: %s" % (l.info or l.panics))
            continue
        if got.get("_v") == "Ok":
            v = got["0"]
            claim = is_word("true") if v is True else (is_word("false") if v is False else z3.BoolVal(False))
            ck.reach("bool:ok")
        else:
            claim = z3.Not(z3.Or(is_word("true"), is_word("false")))
            ck.reach("bool:err")
        okv, mdl = ck.smt_valid(l.pc, claim)
        if okv is False:
            txt = as_text(bs, mdl)
            ck.report("bool:str", "bool::from_string(%r) wrong" % txt, {"property": "C11", "crate": "hconv", "request": "(scalar bool str %s)" % sx_str(txt or ""), "observed": repr(got)})
    for txt, exp in (("true", True), ("false", True), ("True", False), ("", False), ("tru", False)):
        nat = native.ask("(scalar bool str %s)" % sx_str(txt))
        if ("ok" in nat.get("result", {})) == exp:
            ck.native_agree += 1
    # char: exactly one character
    I = Interp(prog, models.all_models(OPTS), Pol(3), timeout_ms=ck.timeout_ms)
    e = prog.entry("entry_s_char_str")
    leaves = I.explore(e, [Lazy("s", e.local_tys[1])])
    ck.absorb(I, leaves, "entry_s_char_str")
    ck.check_exhaustive(I, leaves, "char:str")
    for l in leaves:
        n = l.decisions.get("s*#len", 0)
        got = view(I, l, l.ret, e.local_tys[0]) if l.status == "returned" else None
        if got is None:
            ck.obligations += 1
            ck.engine("char from_string: %s" % (l.info or l.panics))
            continue
        if got.get("_v") == "Ok":
            v = got["0"]
            b0 = z3.BitVec("s*[0]", 8)
            claim = z3.BoolVal(False) if n != 1 else ((z3.ZeroExt(24, b0) == v) if z3.is_expr(v) else (z3.BV2Int(b0, False) == v))
            ck.reach("char:ok")
        else:
            claim = z3.BoolVal(n != 1)
            ck.reach("char:err")
        okv, mdl = ck.smt_valid(l.pc, claim)
        if okv is False:
            ck.report("char:str", "char::from_string wrong for an ASCII string of length %d" % n, {"property": "C11", "crate": "hconv", "request": "(scalar char str \"ab\")", "observed": repr(got)})
    for txt, exp in (("a", True), ("ab", False), ("", False)):
        nat = native.ask("(scalar char str %s)" % sx_str(txt))
        if ("ok" in nat.get("result", {})) == exp:
            ck.native_agree += 1
    # String: identity
    I = Interp(prog, models.all_models(OPTS), Pol(3), timeout_ms=ck.timeout_ms)
    e = prog.entry("entry_s_String_str")
    leaves = I.explore(e, [Lazy("s", e.local_tys[1])])
    ck.absorb(I, leaves, "entry_s_String_str")
    for l in leaves:
        got = view(I, l, l.ret, e.local_tys[0]) if l.status == "returned" else None
        n = l.decisions.get("s*#len", 0)
        ok = isinstance(got, dict) and got.get("_v") == "Ok" and isinstance(got["0"], ByteSeq) and \
            [str(x) for x in got["0"].b] == ["s*[%d]" % i for i in range(n)]
        if ok:
            ck.ok()
            ck.reach("string:ok")
        else:
            ck.obligations += 1
            ck.report("String:str", "String::from_string is not the identity", {"property": "C11", "crate": "hconv", "request": "(scalar String str \"abc\")", "observed": repr(got)})
    native.close()


def prepare(ck):
    """configure `ck` and return the list of jobs of this property's exploration"""
    ck.crate = "hconv"
    quick = ck.tier == "quick"
    if quick:
        types = ["u8", "i8", "u16", "NonZeroU8", "NonZeroI8", "u32", "i64"]
    else:
        types = sorted(INT_TYPES)
    ck.bounds = {"integer_targets": types,
                 "string_length": "up to max(4, decimal digits of the type + 1) ASCII bytes in quick (8/16-bit exact boundary coverage), + 2 in thorough",
                 "unquoted_literal_digits": "syn's base10_digits: -?[0-9]+ up to the same length", "bool/char/String": "ASCII strings of length <= 5 / 3 / 3"}
    ck.outside = ["f32/f64 (std dec2flt is not encoded: floats are not claimed)", "non-ASCII strings", "PathBuf (OsString internals)",
                  "radix prefixes, underscores and suffixes of unquoted literals: stripped by syn when the LitInt is built (trusted: the digit string is the input)",
                  "digit strings longer than the bound (32 / 64 / 128-bit and pointer-sized types: 4 bytes quick, 6 / 5 / 4 bytes thorough, i.e. below their overflow boundary)"]
    ck.assumptions = ["LitInt::base10_digits() yields -?[0-9]+ (syn's contract)", "LitStr::value() is an arbitrary ASCII string"]
    prog = Program(build.dump_mir("hconv", opts=OPTS))
    natbin = build.build_native("hconv")
    jobs = []
    for t in types:
        bits = INT_TYPES[t][0]
        D = max_digits(bits) + (1 if quick else 2)
        if quick and bits >= 32:
            D = 4
        if quick and bits == 16:
            D = 5
        if not quick and bits >= 32:
            D = 6 if bits == 32 else (5 if bits == 64 else 4)      # exact overflow boundaries are covered on the 8 / 16-bit instantiations of the same macro; 10+ symbolic digits do not finish within the tier
        ck.programs.add("FromMeta for %s" % t)
        jobs.append(lambda sub, t=t, D=D: int_job(sub, prog, natbin, t, D, quick))
    jobs.append(lambda sub: misc_job(sub, prog, natbin, quick))
    return jobs


def main():
    ck = Check("C11")
    ck.run_jobs(prepare(ck))
    ck.require_reached(["ok", "err", "lit:Int:ok", "lit:Str:ok", "lit:Int:err", "wrongform", "bool:ok", "char:ok", "string:ok"])
    ck.finish()


if __name__ == "__main__":
    main()
