"""C18 - shape validation accepts exactly the declared shapes.

(a) the stand-alone ShapeSet API on 4 symbolic flags x a symbolic shape (exhaustive in the solver), incl. the rendered expectation;
(b) the derive-generated `__validate_body` / `supports(..)` code of a covering family of receivers on a lazily initialised
    symbolic `syn::Data` (struct styles, enums of 0..N variants of symbolic style, unions)."""
import os
import sys
import z3

sys.path.insert(0, os.path.dirname(os.path.dirname(os.path.abspath(__file__))))
from vlib import build
from vlib.prop import Check, Native, sx_str
from vlib.view import view, L
from mirsym import Program, Interp, models, Lazy, Opaque, syn_models, harness_models  # noqa: F401
from props.recv_common import flat_errors, OPTS

SHAPES = ["Named", "Tuple", "Unit", "Newtype"]
DESC = {"Named": "named fields", "Tuple": "unnamed fields", "Unit": "no fields", "Newtype": "one unnamed field"}
# receiver -> (struct words, enum words) ; None = `any`
SUPPORTS = {
    "D5": ({"Named"}, {"Unit"}),
    "D6": ({"Tuple"}, {"Newtype", "Named"}),
    "D7": None,
    "D8": ({"Newtype", "Unit"}, {"Tuple"}),
}
V2_SUPPORTS = {"Newtype", "Unit"}


def admits(words, shape):
    """the documented table: words are additive; a tuple word also admits newtypes, not the reverse"""
    if shape in words:
        return True
    return shape == "Newtype" and "Tuple" in words


def set_text(words):
    v = []
    if "Named" in words:
        v.append("named fields")
    if "Tuple" in words or "Newtype" in words:
        v.append("unnamed fields" if "Tuple" in words else "one unnamed field")
    if "Unit" in words:
        v.append("no fields")
    if not v:
        return "nothing"
    if len(v) == 1:
        return v[0]
    if len(v) == 2:
        return "%s or %s" % (v[0], v[1])
    return "%s, %s, or %s" % (v[0], v[1], v[2])


class Pol(syn_models.SynPolicy):
    def __init__(self, nvar):
        super().__init__()
        self.nvar = nvar

    def variants(self, I, st, lz, t):
        if t.adt and t.adt["name"].endswith("error::kind::ErrorKind"):
            return list(range(10))
        return syn_models.SynPolicy.variants(self, I, st, lz, t)

    def len_bounds(self, I, st, name, t):
        if name.endswith(".variants"):
            return (0, self.nvar)
        if name.endswith(".unnamed"):
            return (0, 2)
        if name.endswith(".named"):
            return (0, 1)
        if name.endswith(".attrs"):
            return (0, 0)
        if name.endswith(".segments"):
            return (1, 1)
        return (0, 1)


def fields_shape(st, base):
    """shape of the syn::Fields at `base` as decided on the leaf (None if open)"""
    d = st.decisions.get(base + "#d")
    if d is None:
        return None
    if d == 0:
        return "Named"
    if d == 2:
        return "Unit"
    n = st.decisions.get(base + ".Unnamed.0.unnamed#len")
    if n is None:
        return None
    return "Newtype" if n == 1 else "Tuple"


def fields_text(shape, i=0):
    return {"Named": " { a: u8 }", "Tuple": "(u8, u16)", "Unit": "", "Newtype": "(u8)", None: ""}[shape]


def api_job(ck, prog, natbin):
    native = Native(natbin)
    I = Interp(prog, models.all_models(OPTS), Pol(1), timeout_ms=ck.timeout_ms)
    e = prog.entry("entry_shape_api")
    leaves = I.explore(e, [Lazy(n, t) for n, t in zip(["named", "tuple", "unit", "newtype", "shape"], e.local_tys[1:6])])
    ck.absorb(I, leaves, "entry_shape_api")
    ck.check_exhaustive(I, leaves, "shape_api")
    for l in leaves:
        if l.status != "returned":
            ck.obligations += 1
            ck.engine("shape api: leaf %s %s" % (l.status, l.info or l.panics))
            continue
        mdl = ck.model_of(l.pc)
        flags = {}
        for w, nm in (("Named", "named"), ("Tuple", "tuple"), ("Unit", "unit"), ("Newtype", "newtype")):
            v = mdl.eval(z3.Bool(nm), model_completion=True)
            flags[w] = bool(z3.is_true(v))
        sd = l.decisions.get("shape#d")
        # leaves that never looked at a flag / the shape are uniform in it: check the claim for all completions by the solver
        got = view(I, l, l.ret, e.local_tys[0])
        g_empty, g_contains, g_check = got
        words_terms = {"Named": z3.Bool("named"), "Tuple": z3.Bool("tuple"), "Unit": z3.Bool("unit"), "Newtype": z3.Bool("newtype")}
        shapes = [SHAPES[sd]] if sd is not None else SHAPES
        for sh in shapes:
            exp_contains = z3.Or(words_terms[sh], words_terms["Tuple"]) if sh == "Newtype" else words_terms[sh]
            exp_empty = z3.Not(z3.Or(list(words_terms.values())))
            gc = g_contains if z3.is_expr(g_contains) else z3.BoolVal(bool(g_contains))
            ge = g_empty if z3.is_expr(g_empty) else z3.BoolVal(bool(g_empty))
            ok_check = isinstance(g_check, dict) and g_check.get("_v") == "Ok"
            claim = z3.And(gc == exp_contains, ge == exp_empty, z3.BoolVal(ok_check) == exp_contains)
            okv, m2 = ck.smt_valid(l.pc, claim)
            ck.reach("api:" + ("accept" if ok_check else "reject"))
            if okv is False:
                fl = {w: bool(z3.is_true(m2.eval(t, model_completion=True))) for w, t in words_terms.items()}
                req = "(shape_api %d %d %d %d %s)" % (fl["Named"], fl["Tuple"], fl["Unit"], fl["Newtype"], sh)
                nat = native.ask(req)
                words = {w for w, b in fl.items() if b}
                r = nat.get("result", {})
                if r.get("contains") == admits(words, sh) and r.get("empty") == (not words) and (r.get("check") is None) == admits(words, sh):
                    ck.engine("shape api: symbolic leaf disagrees with the table but native agrees (%s)" % req)
                else:
                    ck.report("api:%s" % sh, "ShapeSet verdict differs from the documented table", {"property": "C18", "crate": "hderive", "request": req, "observed": nat,
                                                                                                "expected_contains": admits(words, sh)})
        # the rendered expectation of a rejection (on the witness)
        words = {w for w, b in flags.items() if b}
        sh = SHAPES[sd] if sd is not None else "Named"
        req = "(shape_api %d %d %d %d %s)" % (flags["Named"], flags["Tuple"], flags["Unit"], flags["Newtype"], sh)
        nat = native.ask(req)
        r = nat.get("result", {})
        expmsg = None if admits(words, sh) else "Unsupported shape `%s`. Expected %s." % (DESC[sh], set_text(words))
        if r.get("check") == expmsg and r.get("contains") == admits(words, sh):
            ck.native_agree += 1
        else:
            ck.report("api:native", "native ShapeSet differs from the documented table", {"property": "C18", "crate": "hderive", "request": req, "observed": nat, "expected_check": expmsg})
        if isinstance(g_check, dict) and g_check.get("_v") == "Err" and not admits(words, sh):
            msg = g_check["0"]
            if isinstance(msg, str):
                if msg == expmsg:
                    ck.ok()
                else:
                    ck.obligations += 1
                    ck.report("api:message", "rejection message %r, expected %r" % (msg, expmsg), {"property": "C18", "crate": "hderive", "request": req, "observed": nat})
    native.close()


def derive_job(ck, prog, natbin, rn, nvar, quick):
    native = Native(natbin)
    sup = SUPPORTS[rn]
    I = Interp(prog, models.all_models(OPTS), Pol(nvar), timeout_ms=ck.timeout_ms)
    e = prog.entry("entry_%s" % rn)
    leaves = I.explore(e, [Lazy("x", e.local_tys[1])])
    ck.absorb(I, leaves, "entry_%s" % rn)
    ck.check_exhaustive(I, leaves, rn)
    for l in leaves:
        dk = l.decisions.get("x*.data#d")     # 0 Struct, 1 Enum, 2 Union
        nots = l.decisions.get("x*.data#not") or frozenset()
        src = None
        exp_errs = None
        if sup is None:
            exp_errs = 0
            src = "struct Foo;" if dk in (0, None) else ("enum Foo { A }" if dk == 1 else "union Foo { a: u8 }")
        elif dk == 0:
            sh = fields_shape(l, "x*.data.Struct.0.fields")
            if sh is None:
                ck.engine("%s: struct shape left open" % rn)
                continue
            src = "struct Foo%s%s" % (fields_text(sh), "" if sh == "Named" else ";")
            if not sup[0]:
                exp_errs = 1
            else:
                exp_errs = 0 if admits(sup[0], sh) else 1
        elif dk == 1:
            n = l.decisions.get("x*.data.Enum.0.variants#len")
            if n is None:
                if not sup[1]:
                    exp_errs = 1
                    src = "enum Foo { A }"
                else:
                    ck.engine("%s: variant count left open" % rn)
                    continue
            else:
                shapes = []
                for i in range(n):
                    shapes.append(fields_shape(l, "x*.data.Enum.0.variants[%d].fields" % i))
                src = "enum Foo { %s }" % ", ".join("V%d%s" % (i, fields_text(s)) for i, s in enumerate(shapes))
                if not sup[1]:
                    exp_errs = 1
                elif any(s is None for s in shapes):
                    ck.engine("%s: a variant's shape left open" % rn)
                    continue
                else:
                    exp_errs = sum(0 if admits(sup[1], s) else 1 for s in shapes)
        elif dk == 2 or (dk is None and {0, 1} <= set(nots)):
            exp_errs = 1     # a union satisfies no struct or enum word: an error, never a crash
            src = "union Foo { a: u8 }"
        else:
            ck.engine("%s: data kind left open (%r)" % (rn, l.decisions))
            continue
        req = "(di %s %s)" % (rn, sx_str(src))
        ck.reach("data:%s" % {0: "struct", 1: "enum", 2: "union", None: "open"}[dk])
        if l.status == "panicked":
            ck.obligations += 1
            nat = native.ask(req)
            if "panic" in nat:
                ck.report("%s:%s:panic" % (rn, {0: "struct", 1: "enum", 2: "union", None: "any"}[dk]), "shape validation panics instead of returning an error: %s" % (l.panics,),
                          {"property": "C18", "crate": "hderive", "request": req, "observed": nat})
            else:
                ck.engine("%s: symbolic panic %r not reproduced natively (%s)" % (rn, l.panics, req))
            continue
        if l.status != "returned":
            ck.obligations += 1
            ck.engine("%s: leaf %s %s" % (rn, l.status, l.info))
            continue
        got = view(I, l, l.ret, e.local_tys[0])
        got_ok = isinstance(got, dict) and got.get("_v") == "Ok"
        nerr = 0 if got_ok else len(flat_errors(got["0"], l))
        good = nerr == exp_errs
        ck.reach("accept" if exp_errs == 0 else "reject")
        nat = native.ask(req)
        r = nat.get("result", {}) if isinstance(nat, dict) else {}
        nnat = 0 if "ok" in r else (len(r["err"]) if "err" in r else -1)
        if good:
            ck.ok()
            if nnat == exp_errs:
                ck.native_agree += 1
                if len(ck.samples) < 8 and exp_errs > 1:
                    ck.sample({"receiver": rn, "source": src, "native": r})
            else:
                ck.report("%s:native" % rn, "native verdict differs from the documented table", {"property": "C18", "crate": "hderive", "request": req, "observed": nat, "expected_errors": exp_errs})
        else:
            ck.obligations += 1
            if nnat == exp_errs:
                ck.engine("%s: symbolic %d errors vs table %d, native agrees with the table (%s)" % (rn, nerr, exp_errs, req))
            else:
                ck.report("%s:%s" % (rn, "accepts" if nerr == 0 else "errors"), "%d errors, the table says %d" % (nerr, exp_errs),
                          {"property": "C18", "crate": "hderive", "request": req, "observed": nat, "expected_errors": exp_errs})
    native.close()


def variant_job(ck, prog, natbin):
    native = Native(natbin)
    I = Interp(prog, models.all_models(OPTS), Pol(1), timeout_ms=ck.timeout_ms)
    e = prog.entry("entry_V2")
    leaves = I.explore(e, [Lazy("x", e.local_tys[1])])
    ck.absorb(I, leaves, "entry_V2")
    for l in leaves:
        sh = fields_shape(l, "x*.fields")
        if sh is None:
            ck.engine("V2: shape open")
            continue
        exp = 0 if admits(V2_SUPPORTS, sh) else 1
        req = "(di V2 %s)" % sx_str("enum E { A%s }" % fields_text(sh))
        if l.status != "returned":
            ck.obligations += 1
            nat = native.ask(req)
            if "panic" in nat:
                ck.report("V2:panic", "panic", {"property": "C18", "crate": "hderive", "request": req, "observed": nat})
            else:
                ck.engine("V2: leaf %s" % l.status)
            continue
        got = view(I, l, l.ret, e.local_tys[0])
        nerr = 0 if got.get("_v") == "Ok" else len(flat_errors(got["0"], l))
        nat = native.ask(req)
        r = nat.get("result", {})
        nnat = 0 if "ok" in r else len(r.get("err", []))
        if nerr == exp and nnat == exp:
            ck.ok()
            ck.native_agree += 1
        else:
            ck.obligations += 1
            if nnat == exp:
                ck.engine("V2: symbolic %d vs %d" % (nerr, exp))
            else:
                ck.report("V2:%s" % sh, "variant shape verdict differs from the table", {"property": "C18", "crate": "hderive", "request": req, "observed": nat, "expected_errors": exp})
    native.close()


def prepare(ck):
    """configure `ck` and return the list of jobs of this property's exploration"""
    ck.crate = "hderive"
    quick = ck.tier == "quick"
    nvar = 2 if quick else 3
    ck.bounds = {"shape_api": "4 symbolic flags x symbolic shape: exhaustive", "receivers": sorted(SUPPORTS) + ["V2"], "enum_variants": "0..%d of symbolic style" % nvar,
                 "tuple_fields": "0..2"}
    ck.outside = ["parsing of the supports(...) word list at derive time (C10)", "receivers outside the covering family (every struct_* / enum_* word appears in it; 4 of the 2^11 word sets)",
                  "enums with more variants than the bound"]
    ck.assumptions = ["field / variant contents other than the field-list style do not matter (never read: lazily symbolic)"]
    prog = Program(build.dump_mir("hderive", opts=OPTS))
    natbin = build.build_native("hderive")
    jobs = [lambda sub: api_job(sub, prog, natbin), lambda sub: variant_job(sub, prog, natbin)]
    for rn in sorted(SUPPORTS):
        ck.programs.add("hderive::%s" % rn)
        jobs.append(lambda sub, rn=rn: derive_job(sub, prog, natbin, rn, nvar, quick))
    return jobs


def main():
    ck = Check("C18")
    ck.run_jobs(prepare(ck))
    ck.require_reached(["api:accept", "api:reject", "data:struct", "data:enum", "accept", "reject"])
    ck.finish()


if __name__ == "__main__":
    main()
