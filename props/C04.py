"""C04 - Error trees: count, flatten, location paths and rendering obey their algebra.

One inductive step per Error operation from an arbitrary valid error tree (lazy symbolic input:
kind discriminants, payload strings, location vectors, spans all symbolic), compared with a
reference model on the abstract tree; Display decided as z3 string obligations."""
import sys
import os
import z3

sys.path.insert(0, os.path.dirname(os.path.dirname(os.path.abspath(__file__))))
from vlib import build
from vlib.prop import Check, Native, sx_str
from vlib.view import view, L, variant_index
from mirsym import Program, Interp, models, Lazy, Opaque
from mirsym.lazy import Policy
from mirsym import syn_models

KINDS = ["Custom", "DuplicateField", "MissingField", "UnsupportedShape", "UnknownField", "UnexpectedFormat",
         "UnexpectedType", "UnknownValue", "TooFewItems", "TooManyItems", "Multiple", "__NonExhaustive"]
MULT = 10


class Pol(syn_models.SynPolicy):
    def __init__(self, depth, arity, maxloc, vecmax=3):
        super().__init__()
        self.depth = depth
        self.arity = arity
        self.maxloc = maxloc
        self.vecmax = vecmax

    def variants(self, I, st, lz, t):
        if t.adt["name"].endswith("error::kind::ErrorKind"):
            allowed = list(range(10))
            if lz.name.count("Multiple") < self.depth:
                allowed.append(MULT)
            return allowed
        return None

    def len_bounds(self, I, st, name, t):
        if name.endswith(".kind.Multiple.0"):
            return (2, self.arity)
        if name.endswith(".locations"):
            return (0, self.maxloc)
        if name == "v":
            return (0, self.vecmax)
        return (0, 2)


# ------------------------------------------------------------------ abstract trees from decisions
class Node:
    def __init__(self, name):
        self.name = name
        self.kind = None      # variant index or None (= some non-Multiple kind, never inspected)
        self.kids = None
        self.locs = None      # list of token names, or None if the vector was never opened
        self.span = None      # True/False/None(undecided)


def tree(st, name):
    n = Node(name)
    n.kind = st.decisions.get(name + ".kind#d")
    ln = st.decisions.get(name + ".locations#len")
    if ln is not None:
        n.locs = ["%s.locations[%d]" % (name, i) for i in range(ln)]
    sp = st.decisions.get(name + ".span#d")
    n.span = None if sp is None else (sp == 1)
    if n.kind == MULT:
        k = st.decisions[name + ".kind.Multiple.0#len"]
        n.kids = [tree(st, "%s.kind.Multiple.0[%d]" % (name, i)) for i in range(k)]
    return n


def witness_spans(t, inherited=False):
    """fix the spans the path left open so that the witness exercises inheritance: open nodes under a (possibly) spanned
    bundle get no span, open bundles above them get one"""
    if t.span is None:
        if inherited:
            t.span = False
        elif t.kids is not None and any(k.span is None or k.span is False for k in t.kids):
            t.span = True
    for k in (t.kids or []):
        witness_spans(k, inherited or bool(t.span))
    return t


def count_leaves(t):
    return 1 if t.kids is None else sum(count_leaves(k) for k in t.kids)


def locs_items(t):
    return [("s", x) for x in t.locs] if t.locs is not None else [("v", t.name + ".locations")]


def flat(t, prefix=(), inherited=None):
    """reference flatten: list of (leaf node, location items outer->inner, node whose span the leaf ends up with)"""
    src = inherited if t.span is False else t
    if t.span is None and inherited is not None:
        # the implementation never looked at this node's span although a bundle span is there to inherit:
        # it cannot have computed `own span if any, else the bundle's`
        src = ("must-inspect", inherited)
    if t.kids is None:
        return [(t, list(prefix) + locs_items(t), src)]
    out = []
    for k in t.kids:
        out.extend(flat(k, tuple(prefix) + tuple(locs_items(t)), t if t.span is not False else inherited))
    return out


def span_matches(sp, src, st):
    """the viewed span field is the span of input node `src` (None: no span)"""
    if isinstance(src, tuple):
        return False
    if src is None:
        return span_none(sp) or (isinstance(sp, L) and st.decisions.get(sp.name + "#d") == 0)
    if isinstance(sp, L):
        return sp.name == src.name + ".span"
    if isinstance(sp, dict) and sp.get("_v") == "Some":
        o = sp["0"]
        if isinstance(o, L):      # the input's span moved into a fresh Some(..) without ever being looked into
            return o.name == src.name + ".span.Some.0"
        return isinstance(o, Opaque) and o.data == ("in", src.name + ".span.Some.0")
    if span_none(sp):
        return src.span is False
    return False


def norm_items(items, st):
    out = []
    for it in items:
        if it[0] == "v":
            n = st.decisions.get(it[1] + "#len")
            if n is None:
                out.append(it)
            else:
                out.extend(("s", "%s[%d]" % (it[1], i)) for i in range(n))
        else:
            out.append(it)
    return out


def view_locs(v, st):
    """viewed Vec<String> -> items"""
    if isinstance(v, L):
        return norm_items([("v", v.name)], st)
    out = []
    for x in v:
        if isinstance(x, L):
            out.append(("s", x.name))
        elif z3.is_expr(x) and z3.is_const(x):
            out.append(("s", x.decl().name()))
        else:
            out.append(("?", repr(x)))
    return out


def view_err(v, st):
    """viewed Error -> ('leaf', name, locitems, span) | ('multi', [..], locitems, span) | ('in', name)"""
    if isinstance(v, L):
        return ("in", v.name)
    k = v["kind"]
    locs = view_locs(v["locations"], st)
    span = v["span"]
    if isinstance(k, L):
        # kind untouched: leaf identified by its kind's input name
        return ("leaf", k.name[:-len(".kind")], locs, span)
    if k["_v"] == "Multiple":
        items = k["0"]
        if isinstance(items, L):
            n = st.decisions.get(items.name + "#len")
            items = [L("%s[%d]" % (items.name, i)) for i in range(n)]
        return ("multi", [view_err(x, st) for x in items], locs, span)
    # a concretised non-multiple kind: identify by payload provenance
    names = [x.name for x in k.values() if isinstance(x, L)] + [x.decl().name() for x in k.values() if z3.is_expr(x) and z3.is_const(x)]
    base = None
    for nm in names:
        if ".kind." in nm:
            base = nm.split(".kind.")[0] if nm.count(".kind.") == 1 else nm.rsplit(".kind.", 1)[0]
    return ("leaf", base, locs, span, k["_v"])


def span_none(sp):
    return isinstance(sp, dict) and sp.get("_v") == "None"


def span_same(sp, name):
    """span field still the input's own"""
    return isinstance(sp, L) and sp.name == name + ".span"


def expected_flat_view(t, st):
    """what flatten must return, in view_err shape (spans: each leaf keeps its own)"""
    fl = flat(t)
    leaves = [("leaf", n.name, norm_items(items, st)) for n, items, src in fl]
    return leaves


def check_flat_result(got, t, st):
    """got = view_err of the result of flatten(t)"""
    exp = expected_flat_view(t, st)

    def leaf_ok(g, e, leafnode):
        if g[0] == "in":
            # returned untouched: only legal when nothing had to be prepended
            return g[1] == e[1] and e[2] == norm_items(locs_items(leafnode), st)
        if g[0] != "leaf" or g[1] != e[1]:
            return False
        if norm_items(g[2], st) != e[2]:
            return False
        return span_matches(g[3], srcs[leafnode.name], st)
    fl = flat(t)
    srcs = {n.name: (src if (src is None or isinstance(src, tuple) or src.span is not False) else None) for n, items, src in fl}
    if len(exp) == 1:
        return leaf_ok(got, exp[0], fl[0][0])
    if got[0] != "multi" or len(got[1]) != len(exp):
        return False
    if got[2] != [] or not span_none(got[3]):
        return False
    return all(leaf_ok(g, e, n[0]) for g, e, n in zip(got[1], exp, fl))


# ------------------------------------------------------------------ Display reference (z3 strings)
def S(name):
    return z3.String(name)


def cat(*xs):
    xs = [z3.StringVal(x) if isinstance(x, str) else x for x in xs]
    return z3.Concat(*xs) if len(xs) > 1 else xs[0]


def msg_of(t, st):
    """reference Display of the kind of node t (z3 string term)"""
    p = t.name + ".kind."
    k = t.kind
    if k is None:
        return None
    kn = KINDS[k]
    if kn == "Custom":
        return S(p + "Custom.0")
    if kn == "DuplicateField":
        return cat("Duplicate field `", S(p + "DuplicateField.0"), "`")
    if kn == "MissingField":
        return cat("Missing field `", S(p + "MissingField.0"), "`")
    if kn == "UnsupportedShape":
        base = cat("Unsupported shape `", S(p + "UnsupportedShape.observed"), "`")
        d = st.decisions.get(p + "UnsupportedShape.expected#d")
        if d == 1:
            return cat(base, ". Expected ", S(p + "UnsupportedShape.expected.Some.0"), ".")
        return base
    if kn == "UnknownField":
        base = cat("Unknown field: `", S(p + "UnknownField.0.name"), "`")
        d = st.decisions.get(p + "UnknownField.0.did_you_mean#d")
        if d == 1:
            return cat(base, ". Did you mean `", S(p + "UnknownField.0.did_you_mean.Some.0.1"), "`?")
        return base
    if kn == "UnexpectedFormat":
        return cat("Unexpected meta-item format `", S(p + "UnexpectedFormat.0"), "`")
    if kn == "UnexpectedType":
        return cat("Unexpected type `", S(p + "UnexpectedType.0"), "`")
    if kn == "UnknownValue":
        return cat("Unknown literal value `", S(p + "UnknownValue.0"), "`")
    if kn == "TooFewItems":
        return cat("Too few items: Expected at least ", z3.IntToStr(z3.BV2Int(z3.BitVec(p + "TooFewItems.0", 64), False)))
    if kn == "TooManyItems":
        return cat("Too many items: Expected no more than ", z3.IntToStr(z3.BV2Int(z3.BitVec(p + "TooManyItems.0", 64), False)))
    if kn == "Multiple":
        parts = ["Multiple errors: ("]
        for i, kid in enumerate(t.kids):
            if i:
                parts.append(", ")
            parts.append(display_of(kid, st))
        parts.append(")")
        return cat(*parts)
    raise ValueError(kn)


def display_of(t, st):
    m = msg_of(t, st)
    if t.locs:
        parts = [m, " at "]
        for i, l in enumerate(t.locs):
            if i:
                parts.append("/")
            parts.append(S(l))
        return cat(*parts)
    return m


# ------------------------------------------------------------------ native witnesses
def tok(name):
    return name.replace(".kind.", ":").replace("Multiple.0", "M").replace(".locations", "@")


def native_err(t, st, used=None):
    """s-expression building the same tree natively, payload strings = readable tokens of their input names"""
    p = t.name + ".kind."
    k = t.kind if t.kind is not None else 0
    kn = KINDS[k]
    if kn == "Multiple":
        e = "(multiple %s)" % " ".join(native_err(x, st) for x in t.kids)
    elif kn == "Custom":
        e = "(custom %s)" % sx_str(tok(p + "Custom.0"))
    elif kn == "DuplicateField":
        e = "(dup %s)" % sx_str(tok(p + "DuplicateField.0"))
    elif kn == "MissingField":
        e = "(missing %s)" % sx_str(tok(p + "MissingField.0"))
    elif kn == "UnsupportedShape":
        if st.decisions.get(p + "UnsupportedShape.expected#d") == 1:
            e = "(shape_exp %s %s)" % (sx_str(tok(p + "UnsupportedShape.observed")), sx_str(tok(p + "UnsupportedShape.expected.Some.0")))
        else:
            e = "(shape %s)" % sx_str(tok(p + "UnsupportedShape.observed"))
    elif kn == "UnknownField":
        if st.decisions.get(p + "UnknownField.0.did_you_mean#d") == 1:
            e = "(unknown_field_alt %s %s)" % (sx_str("fieldnamex1"), sx_str("fieldnamex2"))
        else:
            e = "(unknown_field %s)" % sx_str(tok(p + "UnknownField.0.name"))
    elif kn == "UnexpectedFormat":
        e = "(format %s)" % sx_str(tok(p + "UnexpectedFormat.0"))
    elif kn == "UnexpectedType":
        e = "(type %s)" % sx_str(tok(p + "UnexpectedType.0"))
    elif kn == "UnknownValue":
        e = "(value %s)" % sx_str(tok(p + "UnknownValue.0"))
    elif kn == "TooFewItems":
        e = "(too_few 3)"
    elif kn == "TooManyItems":
        e = "(too_many 5)"
    else:
        raise ValueError(kn)
    for l in reversed(t.locs or []):
        e = "(at %s %s)" % (sx_str(tok(l)), e)
    if t.span:
        e = "(span %s)" % e
    return e


def native_msg(t, st):
    p = t.name + ".kind."
    k = t.kind if t.kind is not None else 0
    kn = KINDS[k]
    if kn == "Multiple":
        m = "Multiple errors: (%s)" % ", ".join(native_display(x, st) for x in t.kids)
    elif kn == "Custom":
        m = tok(p + "Custom.0")
    elif kn == "DuplicateField":
        m = "Duplicate field `%s`" % tok(p + "DuplicateField.0")
    elif kn == "MissingField":
        m = "Missing field `%s`" % tok(p + "MissingField.0")
    elif kn == "UnsupportedShape":
        m = "Unsupported shape `%s`" % tok(p + "UnsupportedShape.observed")
        if st.decisions.get(p + "UnsupportedShape.expected#d") == 1:
            m += ". Expected %s." % tok(p + "UnsupportedShape.expected.Some.0")
    elif kn == "UnknownField":
        if st.decisions.get(p + "UnknownField.0.did_you_mean#d") == 1:
            m = "Unknown field: `fieldnamex1`. Did you mean `fieldnamex2`?"
        else:
            m = "Unknown field: `%s`" % tok(p + "UnknownField.0.name")
    elif kn == "UnexpectedFormat":
        m = "Unexpected meta-item format `%s`" % tok(p + "UnexpectedFormat.0")
    elif kn == "UnexpectedType":
        m = "Unexpected type `%s`" % tok(p + "UnexpectedType.0")
    elif kn == "UnknownValue":
        m = "Unknown literal value `%s`" % tok(p + "UnknownValue.0")
    elif kn == "TooFewItems":
        m = "Too few items: Expected at least 3"
    elif kn == "TooManyItems":
        m = "Too many items: Expected no more than 5"
    return m


def native_display(t, st, extra_locs=()):
    m = native_msg(t, st)
    locs = list(extra_locs) + [tok(l) for l in (t.locs or [])]
    if locs:
        m += " at " + "/".join(locs)
    return m


def native_json(t, st, extra_locs=()):
    """expected canonical rendering (harness/common/errors.rs::render_error) of the tree"""
    d = {"msg": native_display(t, st, extra_locs), "span": bool(t.span), "len": count_leaves(t)}
    if t.kids is not None:
        d["children"] = [native_json(k, st) for k in t.kids]
    return d


def native_flat_json(t, st):
    fl = flat(t)
    outs = []
    for n, items, src in fl:
        own = [tok(l) for l in (n.locs or [])]
        anc = [tok(x[1]) for x in norm_items(items, st) if x[0] == "s"]
        # items already include own locations at the end
        d = {"msg": native_msg(n, st) + ((" at " + "/".join(anc)) if anc else ""), "span": bool(src is not None and not isinstance(src, tuple) and src.span), "len": 1}
        outs.append(d)
    if len(outs) == 1:
        return outs[0]
    return {"msg": "Multiple errors: (%s)" % ", ".join(o["msg"] for o in outs), "span": False, "len": len(outs), "children": outs}


def block(ck, prog, natbin, quick, which, cfg, dcfg):
    native = Native(natbin)
    ddepth, darity, dloc = dcfg
    nv = 5 if quick else 1

    def explore(entry, names, pol):
        I = Interp(prog, models.all_models(), pol, timeout_ms=10000 if quick else 60000)
        e = prog.entry(entry)
        args = [Lazy(n, ty) for n, ty in zip(names, e.local_tys[1:1 + e.arg_count])]
        leaves = I.explore(e, args)
        ck.absorb(I, leaves, entry)
        ck.check_exhaustive(I, leaves, entry)
        return I, e, leaves

    def validate(entry, request, expected, every=1, counter=[0]):
        counter[0] += 1
        if counter[0] % every:
            return
        got = native.ask(request)
        if got == expected:
            ck.native_agree += 1
        else:
            ck.report("%s:native" % entry, "native outcome differs from the reference model",
                      {"property": "C04", "entry": entry, "request": request, "expected": expected, "observed": got})

    def fail(entry, key, what, request, expected, sym):
        ck.obligations += 1
        got = native.ask(request)
        if got == expected:
            ck.engine("%s: symbolic outcome disagrees with oracle but native agrees with oracle: %s (%r)" % (entry, request, sym))
        else:
            ck.report(key, what, {"property": "C04", "entry": entry, "request": request, "expected": expected, "observed": got, "symbolic": repr(sym)[:2000]})

    if cfg is not None:
        depth, arity, maxloc = cfg
        pol = Pol(depth, arity, maxloc)
    if which == "len":
        I, e, leaves = explore("entry_len", ["e"], pol)
        for l in leaves:
            if l.status != "returned":
                fail("entry_len", "len:panic", "len() panicked", "(len %s)" % native_err(tree(l, "e*"), l), {"result": 0}, l.panics)
                continue
            t = tree(l, "e*")
            n = count_leaves(t)
            ck.reach("len:%d" % min(n, 3))
            if l.ret == n and n >= 1:
                ck.ok()
                validate("entry_len", "(len %s)" % native_err(t, l), {"result": n}, nv)
            else:
                fail("entry_len", "len:count", "len() is not the number of leaves", "(len %s)" % native_err(t, l), {"result": n}, l.ret)

    if which in ("flatten", "flatten_twice"):
        for ent, req in ((("entry_flatten", "flatten"),) if which == "flatten" else (("entry_flatten_twice", "flatten_twice"),)):
            I, e, leaves = explore(ent, ["e"], pol)
            for l in leaves:
                t = tree(l, "e")
                rq = "(%s %s)" % (req, native_err(t, l))
                if l.status != "returned":
                    fail(ent, "%s:panic" % req, "flatten panicked", rq, {"result": native_flat_json(t, l)}, l.panics)
                    continue
                got = view_err(view(I, l, l.ret, e.local_tys[0]), l)
                ck.reach("%s:%s" % (req, "bundle" if t.kids else "single"))
                if check_flat_result(got, t, l):
                    ck.ok()
                    validate(ent, rq, {"result": native_flat_json(t, l)}, nv)
                    if t.kids and len(ck.samples) < 6:
                        ck.sample({"entry": ent, "decisions": {k: str(v) for k, v in l.decisions.items()}, "result": repr(got)[:400], "native_request": rq})
                else:
                    t2 = witness_spans(tree(l, "e"))
                    rq2 = "(%s %s)" % (req, native_err(t2, l))
                    fail(ent, "%s:leaves" % req, "flatten does not yield the leaves left-to-right with full location paths and inherited spans", rq2,
                         {"result": native_flat_json(t2, l)}, got)

    if which == "multiple":
        I, e, leaves = explore("entry_multiple", ["v"], pol)
        for l in leaves:
            n = l.decisions.get("v#len")
            rq = "(multiple_of %s)" % " ".join("(custom %s)" % sx_str("v[%d]" % i) for i in range(n))
            if n == 0:
                if l.status == "panicked":
                    ck.ok()
                    ck.reach("multiple:0")
                    validate("entry_multiple", rq, {"panic": "Can't deal with 0 errors"})
                else:
                    fail("entry_multiple", "multiple:empty", "multiple([]) did not panic", rq, {"panic": "Can't deal with 0 errors"}, l.status)
                continue
            expn = {"msg": "v[0]", "span": False, "len": 1} if n == 1 else \
                {"msg": "Multiple errors: (%s)" % ", ".join("v[%d]" % i for i in range(n)), "span": False, "len": n,
                 "children": [{"msg": "v[%d]" % i, "span": False, "len": 1} for i in range(n)]}
            if l.status != "returned":
                fail("entry_multiple", "multiple:panic", "multiple panicked", rq, {"result": expn}, l.panics)
                continue
            got = view_err(view(I, l, l.ret, e.local_tys[0]), l)
            if n == 1:
                good = got == ("in", "v[0]")
            else:
                good = got[0] == "multi" and [g for g in got[1]] == [("in", "v[%d]" % i) for i in range(n)] and got[2] == [] and span_none(got[3])
            ck.reach("multiple:%s" % ("1" if n == 1 else "n"))
            if good:
                ck.ok()
                validate("entry_multiple", rq, {"result": expn})
            else:
                fail("entry_multiple", "multiple:bundle", "multiple(v) is not the ordered bundle of v (or v[0] for one)", rq, {"result": expn}, got)

    if which == "at":
        I, e, leaves = explore("entry_at", ["e", "loc"], pol)
        for l in leaves:
            t = tree(l, "e")
            rq = "(at_loc %s %s)" % (native_err(t, l), sx_str("LOC"))
            expn = native_json(t, l, extra_locs=["LOC"])
            if l.status != "returned":
                fail("entry_at", "at:panic", "at() panicked", rq, {"result": expn}, l.panics)
                continue
            got = view_err(view(I, l, l.ret, e.local_tys[0]), l)
            want_locs = [("s", "loc")] + norm_items(locs_items(t), l)
            if got[0] in ("leaf", "multi") and norm_items(got[2], l) == want_locs and (got[0] != "leaf" or got[1] == "e"):
                ck.ok()
                ck.reach("at")
                validate("entry_at", rq, {"result": expn})
            else:
                fail("entry_at", "at:prepend", "at() does not prepend the location", rq, {"result": expn}, got)

    if which == "into_iter":
        I, e, leaves = explore("entry_into_iter", ["e"], pol)
        for l in leaves:
            t = tree(l, "e")
            rq = "(into_iter %s)" % native_err(t, l)
            expn = [native_json(k, l) for k in t.kids] if t.kids else [native_json(t, l)]
            if l.status != "returned":
                fail("entry_into_iter", "into_iter:panic", "into_iter panicked", rq, {"result": expn}, l.panics)
                continue
            got = view(I, l, l.ret, e.local_tys[0])
            if isinstance(got, L):
                got = [L("%s[%d]" % (got.name, i)) for i in range(l.decisions.get(got.name + "#len", 0))]
            gv = [view_err(x, l) for x in got]
            if t.kids:
                good = gv == [("in", k.name) for k in t.kids]
            else:
                good = len(gv) == 1 and (gv[0] == ("in", "e") or (gv[0][0] == "leaf" and gv[0][1] == "e" and norm_items(gv[0][2], l) == norm_items(locs_items(t), l)))
            ck.reach("into_iter:%s" % ("bundle" if t.kids else "single"))
            if good:
                ck.ok()
                validate("entry_into_iter", rq, {"result": expn}, nv)
            else:
                fail("entry_into_iter", "into_iter:level", "into_iter does not yield exactly one level", rq, {"result": expn}, gv)


    if which == "display":
        dpol = Pol(ddepth, darity, dloc)
        I, e, leaves = explore("entry_display", ["e"], dpol)
        nd = 0
        for l in leaves:
            t = tree(l, "e*")
            rq = "(display %s)" % native_err(t, l)
            expn = native_display(t, l)
            if l.status != "returned":
                fail("entry_display", "display:panic", "Display panicked", rq, {"result": expn}, l.panics)
                continue
            got = view(I, l, l.ret, e.local_tys[0])
            want = display_of(t, l)
            g = z3.StringVal(got) if isinstance(got, str) else (z3.String(got.name) if isinstance(got, L) else got)
            okv, mdl = ck.smt_valid(l.pc, g == want)
            ck.reach("display:%s" % KINDS[t.kind if t.kind is not None else 0])
            if okv:
                nd += 1
                validate("entry_display", rq, {"result": expn}, 3 if quick else 1)
                if nd % 40 == 1:
                    ck.sample({"entry": "entry_display", "obligation": "forall strings: %s == %s" % (z3.simplify(g).sexpr()[:300], z3.simplify(want).sexpr()[:300]), "native_request": rq})
            elif okv is False:
                fail("entry_display", "display:text", "Display text differs from `<kind message>[ at a/b/c]`", rq, {"result": expn}, repr(got)[:500])

    if which == "clone":
        I, e, leaves = explore("entry_clone", ["e"], Pol(1, 2, 1))
        for l in leaves:
            t = tree(l, "e*")
            rq = "(clone %s)" % native_err(t, l)
            expn = native_json(t, l)
            if l.status != "returned":
                fail("entry_clone", "clone:panic", "clone panicked", rq, {"result": expn}, l.panics)
                continue
            ck.ok()
            validate("entry_clone", rq, {"result": expn}, 2)

    native.close()


def main():
    ck = Check("C04")
    quick = ck.tier == "quick"
    depth, arity, maxloc = (2, 2, 1)
    configs = [(2, 2, 1)] if quick else [(2, 2, 1), (1, 3, 2), (1, 4, 1)]
    ddepth, darity, dloc = (1, 2, 2) if quick else (1, 3, 1)
    ck.bounds = {"tree_configs(depth, max arity, max locations per node)": configs,
                 "display_trees": "depth %d, arity 2..%d, locations 0..%d, all ten leaf kinds" % (ddepth, darity, dloc),
                 "strings": "unbounded (z3 strings)", "usize payloads": "64-bit symbolic"}
    ck.outside = ["trees deeper / wider than the bounds", "the `diagnostics` feature (child diagnostics)",
                  "write_errors token output (compile_error! tokens are syn's)"]
    ck.assumptions = ["representation invariant: a Multiple node has >= 2 children (what Error::multiple constructs)",
                      "std Vec/String/fmt/iterator cursors modelled; Iterator adaptors (flat_map, map, sum, collect driver) run from real MIR",
                      "proc_macro2::Span is an abstract origin"]
    prog = Program(build.dump_mir("hcore"))
    natbin = build.build_native("hcore")
    ck.programs.add("hcore")
    blocks = ["len", "flatten", "flatten_twice", "multiple", "at", "into_iter"]
    jobs = []
    for cfg in configs:
        for b in blocks:
            if b == "flatten_twice" and cfg == (2, 2, 1) and quick:
                cfg2 = (1, 3, 1)
                jobs.append(lambda sub, b=b, cfg=cfg2: block(sub, prog, natbin, quick, b, cfg, (ddepth, darity, dloc)))
                continue
            jobs.append(lambda sub, b=b, cfg=cfg: block(sub, prog, natbin, quick, b, cfg, (ddepth, darity, dloc)))
    jobs.append(lambda sub: block(sub, prog, natbin, quick, "display", None, (ddepth, darity, dloc)))
    jobs.append(lambda sub: block(sub, prog, natbin, quick, "clone", None, (ddepth, darity, dloc)))
    ck.run_jobs(jobs)
    ck.require_reached(["len:1", "len:2", "flatten:bundle", "flatten:single", "multiple:0", "multiple:1", "multiple:n", "at",
                        "into_iter:bundle", "display:Multiple", "display:Custom", "display:TooFewItems", "display:UnknownField"])
    ck.finish()


if __name__ == "__main__":
    main()
