"""Shared machinery for the derived-struct-receiver properties (C01, C02, C03, C17):
exploration of generated `from_list`, classification of each leaf's input, the reference model
(`expect_struct`), comparison of symbolic outcomes with it, witness text and native replay."""
import os
import sys
import z3

sys.path.insert(0, os.path.dirname(os.path.dirname(os.path.abspath(__file__))))
from vlib import build
from vlib.prop import Native, sx_str
from vlib.view import view, L
from mirsym import Program, Interp, models, Lazy, Opaque, syn_models, harness_models  # noqa: F401
from mirsym.core import is_sym
from props import recv_spec as S

OPTS = ("no_dym",)


class Pol(syn_models.SynPolicy):
    def __init__(self, K, nestedK, segs=1):
        super().__init__()
        self.K = K
        self.nestedK = nestedK
        self.segs = segs

    def variants(self, I, st, lz, t):
        if t.adt and t.adt["name"].endswith("error::kind::ErrorKind"):
            # errors returned by opaque conversions are single leaf errors (bundles: C04's flatten step)
            return list(range(10))
        return syn_models.SynPolicy.variants(self, I, st, lz, t)

    def len_bounds(self, I, st, name, t):
        if name == "items*":
            return (0, self.K)
        if name.endswith(".parsed.Ok.0"):
            depth = name.count(".parsed.Ok.0")
            return (0, self.nestedK if depth == 1 else min(1, self.nestedK))
        if name.endswith(".segments"):
            return (1, self.segs)
        if name.endswith(".locations"):
            return (0, 1)
        return (0, 1)


# ---------------------------------------------------------------------------------------------- input classification
class Item:
    """one nested meta item of an input list, as decided on a leaf"""

    def __init__(self, base):
        self.base = base            # origin of the NestedMeta
        self.kind = None            # 'lit' | 'meta'
        self.meta = None            # origin of the syn::Meta
        self.namevar = None         # z3 string variable (single segment) or z3 expr
        self.cls = None             # effective field name it equals, or None (= differs from every known name)
        self.nseg = 1


def name_term(st, meta):
    n = st.decisions.get(meta + ".path.segments#len", 1)
    parts = [z3.String("%s.path.segments[%d].ident.sym" % (meta, j)) for j in range(n)]
    t = parts[0]
    for p in parts[1:]:
        t = z3.Concat(t, z3.StringVal("::"), p)
    return t, n


def list_items(st, listname):
    """items of the input list `listname` (a slice / vec of NestedMeta) as decided on leaf st"""
    k = st.decisions.get(listname + "#len")
    if k is None:
        return None
    out = []
    for i in range(k):
        it = Item("%s[%d]" % (listname, i))
        d = st.decisions.get(it.base + "#d")
        if d == 1:
            it.kind = "lit"
        elif d == 0:
            it.kind = "meta"
            it.meta = it.base + ".Meta.0"
            it.namevar, it.nseg = name_term(st, it.meta)
        else:
            it.kind = None
        out.append(it)
    return out


def classify_names(ck, st, items, names):
    """decide, for every meta item, which known name (if any) its name equals on this leaf (solver-checked uniformity)"""
    facts = st.extra.get("sfacts") or {}
    for it in items:
        if it.kind != "meta":
            continue
        it.cls = None
        if it.nseg == 1:
            var = it.namevar.decl().name()
            f = facts.get(var)
            if f is None:
                continue
            if f != "complex":
                if f[0] == "eq":
                    it.cls = f[1]
                    ck.ok()
                    continue
                if f[0] == "ne" and set(names) <= set(f[1]):
                    ck.ok()
                    continue
        # general case: ask the solver
        found = None
        for n in names:
            if ck.implies(st.pc, it.namevar == z3.StringVal(n)):
                found = n
                ck.ok()
                break
        if found is None:
            if ck.implies(st.pc, z3.And([it.namevar != z3.StringVal(n) for n in names]) if names else True):
                ck.ok()
            else:
                # the implementation lumps together inputs that the declaration distinguishes (it never compared this name with a
                # declared one).  Judge the leaf on the sub-class "the item carries the declared name": the leaf has one outcome, so
                # if that outcome is wrong for the declared name the violation is real and is replayed with that name.
                cand = [n for n in names if ck.model_of(list(st.pc) + [it.namevar == z3.StringVal(n)]) is not None]
                taken = [x.cls for x in items if x is not it and getattr(x, "cls", None)]
                cand.sort(key=lambda n: n in taken)       # prefer a declared name no other item of the list carries
                if cand:
                    st.pc.append(it.namevar == z3.StringVal(cand[0]))
                    sf = dict(st.extra.get("sfacts") or {})
                    sf[it.namevar.decl().name()] = ("eq", cand[0])
                    st.extra["sfacts"] = sf
                    found = cand[0]
                    # the path never converted this item (it did not recognise the name): complete it with a convertible value
                    for prefix in ("conv", "convw"):
                        st.decisions.setdefault("%s(%s)#d" % (prefix, it.meta), 0)
                    ck.reach("split-leaf")
                else:
                    ck.engine("leaf is not uniform in the class of item %s" % it.base)
        it.cls = found


# ---------------------------------------------------------------------------------------------- expected outcomes
class E:
    """expected error leaf"""

    def __init__(self, kind, what=None, span=None, own_span=None):
        self.kind = kind
        self.what = what          # field name / name term / conv error identity / message
        self.locs = []
        self.span = span          # ('node', origin) | ('in', origin) | None   (applied only if the leaf has no own span)
        self.own_span = own_span  # span carried by the error itself

    def at(self, loc):
        self.locs.insert(0, loc)
        return self

    def with_span(self, sp):
        if self.own_span is None and self.span is None:
            self.span = sp
        return self

    def eff_span(self):
        return self.own_span if self.own_span is not None else self.span

    def key(self):
        w = self.what
        if is_sym(w):
            w = z3.simplify(w).sexpr()
        return (self.kind, w, tuple(self.locs), self.eff_span())

    def __repr__(self):
        return "E%r" % (self.key(),)


def bundle_with_span(errs, sp):
    """`err.with_span(sp)` applied to the error a nested receiver returned.  Property C03: a leaf without a span of its
    own (something absent from the nested item) carries the enclosing item's span - whether it comes back alone or bundled."""
    for e in errs:
        e.with_span(sp)
    return errs


class Oracle:
    def __init__(self, ck, st, crate="hrecv"):
        self.ck = ck
        self.st = st
        self.crate = crate
        self.undetermined = False

    # ---- symbolic condition on this leaf
    def decide(self, cond):
        if cond is True or cond is False:
            return cond
        if self.ck.implies(self.st.pc, cond):
            self.ck.ok()
            return True
        if self.ck.implies(self.st.pc, z3.Not(cond)):
            self.ck.ok()
            return False
        self.ck.engine("leaf not uniform w.r.t. %s" % cond)
        self.undetermined = True
        return False

    def conv_outcome(self, prefix, meta):
        return self.st.decisions.get("%s(%s)#d" % (prefix, meta))

    def conv_leaf(self, f, it, r):
        """outcome of converting item `it` for field f: ('ok', value) | ('err', [E]) | ('none', None) (not evaluated)"""
        ty = f["ty"]
        inner = ty
        wrap_some = False
        if ty.startswith("Option<"):
            inner = ty[7:-1]
            wrap_some = True
        if ty.startswith("Vec<") and f["multiple"]:
            inner = ty[4:-1]
        sp_item = ("node", it.meta)
        if inner in ("Opq", "OpqN"):
            prefix = "convw" if f["with_"] else "conv"
            d = self.conv_outcome(prefix, it.meta)
            if d is None:
                return ("none", None)
            if d == 0:
                v = z3.BitVec("%s(%s).Ok.0.0" % (prefix, it.meta), 32)
                if f["map"]:
                    v = v + 1000
                if f["and_then"]:
                    if self.decide(v == 13):
                        return ("err", [E("custom", "unlucky").with_span(sp_item)])
                    v = v + 2000
                return ("ok", ("some", v) if wrap_some else v)
            own = self.st.decisions.get("%s(%s).Err.0.span#d" % (prefix, it.meta))
            e = E("conv", "%s(%s).Err.0" % (prefix, it.meta),
                  own_span=("in", "%s(%s).Err.0.span.Some.0" % (prefix, it.meta)) if own == 1 else None)
            nloc = self.st.decisions.get("%s(%s).Err.0.locations#len" % (prefix, it.meta))
            e.own_locs = nloc
            e.with_span(sp_item)
            return ("err", [e])
        sub = S.BY_NAME.get(inner)
        if sub is not None:
            form = self.st.decisions.get(it.meta + "#d")
            if form is None:
                return ("none", None)
            if form == 0:
                return ("err", [E("format", "word").with_span(sp_item)])
            if form == 1:
                pd = self.st.decisions.get(it.meta + ".List.0.tokens.parsed#d")
                if pd is None:
                    return ("none", None)
                if pd == 1:
                    return ("err", [E("syn", it.meta + ".List.0.tokens.parsed.Err.0", own_span=("in", it.meta + ".List.0.tokens.parsed.Err.0.span"))])
                subitems = list_items(self.st, it.meta + ".List.0.tokens.parsed.Ok.0")
                if subitems is None:
                    return ("none", None)
                kind, val = self.expect_struct(sub, subitems)
                if kind == "ok":
                    return ("ok", ("some", val) if wrap_some else val)
                if kind == "none":
                    return ("none", None)
                return ("err", bundle_with_span(val, sp_item))
            return ("err", [E("anyformat", None).with_span(sp_item)])
        return ("unsupported", ty)

    def default_value(self, r, idx, f):
        """value of the field's default expression (own default, else container default's field, else Default::default())"""
        ty = f["ty"]
        if f["default"] == "fn":
            return S.FIELD_FN_DEFAULT
        if f["default"] == "fnvec":
            return list(S.FNVEC_DEFAULT)
        if f["default"] == "Default" or (r["default"] is None and f["skip"]):
            return self.type_default(ty)
        if r["default"] == "Default":
            return self.container_default_field(r, idx, f)
        return None

    def type_default(self, ty):
        if ty == "Opq":
            return S.OPQ_DEFAULT
        if ty.startswith("Vec<"):
            return []
        if ty.startswith("Option<"):
            return None
        sub = S.BY_NAME.get(ty)
        if sub is not None:
            return {g["name"]: self.container_default_field(sub, i, g) for i, g in enumerate(sub["fields"])}
        raise ValueError("type default of %s" % ty)

    def container_default_field(self, r, idx, f):
        ty = f["ty"]
        val = S.container_default_value(r, idx)
        if ty in ("Opq", "OpqN"):
            return val
        if ty.startswith("Vec<"):
            return [val]
        if ty.startswith("Option<"):
            return ("some", val)
        return self.type_default(ty)

    def has_default_expr(self, r, f):
        return f["default"] is not None or r["default"] is not None or f["skip"]

    def from_none(self, ty):
        if ty.startswith("Option<"):
            return ("value", None)
        if ty == "OpqN":
            return ("value", S.OPQN_NONE)
        return None

    def expect_struct(self, r, items):
        """reference model of the derived from_list of receiver r on the classified items.
        returns ('ok', value dict) | ('err', [E]) | ('none', None) when the leaf stopped before deciding"""
        names = [S.eff_name(r, f) for f in r["fields"] if S.eff_name(r, f)]
        classify_names(self.ck, self.st, items, names)
        errors = []
        seen = set()
        vals = {}
        flat_field = None
        for f in r["fields"]:
            if f["flatten"]:
                flat_field = f
            if f["multiple"]:
                vals[f["name"]] = []
        flat_items = []
        for it in items:
            if it.kind is None:
                return ("none", None)
            if it.kind == "lit":
                errors.append(E("format", "literal", span=("node", it.base + ".Lit.0")))
                continue
            f = None
            for g in r["fields"]:
                if S.eff_name(r, g) is not None and S.eff_name(r, g) == it.cls:
                    f = g
            if f is None:
                if flat_field is not None:
                    flat_items.append(it)
                elif r["allow_unknown"]:
                    pass
                else:
                    errors.append(E("unknown", it.namevar, span=("node", it.meta)))
                continue
            eff = S.eff_name(r, f)
            if f["multiple"]:
                idx = len(vals[f["name"]])
                kind, v = self.conv_leaf(f, it, r)
                if kind == "none":
                    return ("none", None)
                if kind == "unsupported":
                    return ("unsupported", v)
                if kind == "ok":
                    vals[f["name"]].append(v)
                else:
                    errors.extend(e.at("%s[%d]" % (eff, idx)) for e in v)
            else:
                if f["name"] in seen:
                    errors.append(E("duplicate", eff, span=("node", it.meta)))
                    continue
                seen.add(f["name"])
                kind, v = self.conv_leaf(f, it, r)
                if kind == "none":
                    return ("none", None)
                if kind == "unsupported":
                    return ("unsupported", v)
                if kind == "ok":
                    vals[f["name"]] = v
                else:
                    errors.extend(e.at(eff) for e in v)
        if flat_field is not None:
            sub = S.BY_NAME[flat_field["ty"]]
            kind, v = self.expect_struct(sub, flat_items)
            if kind in ("none", "unsupported"):
                return (kind, v)
            if kind == "ok":
                vals[flat_field["name"]] = v
            else:
                errors.extend(v)
        for idx, f in enumerate(r["fields"]):
            if f["skip"] or f["flatten"] or f["multiple"] or self.has_default_expr(r, f):
                continue
            if f["name"] not in seen:
                fn = self.from_none(f["ty"])
                if fn is not None:
                    vals[f["name"]] = fn[1]
                else:
                    errors.append(E("missing", S.eff_name(r, f), span=None))
        if errors:
            return ("err", errors)
        out = {}
        for idx, f in enumerate(r["fields"]):
            n = f["name"]
            if f["multiple"]:
                if vals[n] or not self.has_default_expr(r, f):
                    out[n] = vals[n]
                else:
                    out[n] = self.default_value(r, idx, f)
            elif f["skip"]:
                out[n] = self.default_value(r, idx, f)
            elif n in vals:
                out[n] = vals[n]
            else:
                out[n] = self.default_value(r, idx, f)
        first = r["fields"][0]["name"]
        if r["map"]:
            out[first] = out[first] + 7
        if r["and_then"]:
            if self.decide(self.as_bv(out[first]) == 77):
                return ("err", [E("custom", "a77")])
        return ("ok", out)

    def as_bv(self, v):
        return z3.BitVecVal(v, 32) if isinstance(v, int) else v


# ---------------------------------------------------------------------------------------------- actual outcomes
def actual_errors(v, st, prefix=()):
    """reference flatten of a viewed darling::Error tree -> list of (kind, what, locs, span)"""
    if isinstance(v, L):
        return [("conv", v.name, tuple(prefix), "own?")]
    k = v["kind"]
    locs = v["locations"]
    if isinstance(locs, L):
        n = st.decisions.get(locs.name + "#len", 0)
        locs = [z3.String("%s[%d]" % (locs.name, i)) for i in range(n)]
    ll = []
    for x in locs:
        if isinstance(x, L):
            x = z3.String(x.name)
        ll.append(x if isinstance(x, str) else z3.simplify(x).sexpr() if is_sym(x) else repr(x))
    here = tuple(prefix) + tuple(ll)
    sp = v["span"]
    span = None
    if isinstance(sp, dict) and sp.get("_v") == "Some":
        o = sp["0"]
        if isinstance(o, L):
            span = ("in", o.name)        # an input span that was moved around but never looked into
        else:
            span = o.data if isinstance(o, Opaque) else ("?", repr(o))
    elif isinstance(sp, L):
        d = st.decisions.get(sp.name + "#d")
        span = ("in", sp.name + ".Some.0") if d == 1 else (None if d == 0 else ("lazy", sp.name))
    if isinstance(k, L):
        # kind never inspected: an opaque error produced by a conversion, identified by its input name
        return [("conv", k.name[:-len(".kind")], here, span)]
    kv = k["_v"]
    if kv == "Multiple":
        items = k["0"]
        if isinstance(items, L):
            n = st.decisions.get(items.name + "#len", 0)
            items = [L("%s[%d]" % (items.name, i)) for i in range(n)]
        out = []
        for c in items:
            out.extend(actual_errors(c, st, here))
        return out

    def s(x):
        if isinstance(x, L):
            return z3.String(x.name).sexpr()
        if is_sym(x):
            return z3.simplify(x).sexpr()
        return x
    if kv == "UnknownField":
        inner = k["0"]
        nm = inner["name"] if isinstance(inner, dict) else inner
        return [("unknown", s(nm), here, span)]
    if kv == "DuplicateField":
        return [("duplicate", s(k["0"]), here, span)]
    if kv == "MissingField":
        return [("missing", s(k["0"]), here, span)]
    if kv == "UnexpectedFormat":
        return [("format", s(k["0"]), here, span)]
    if kv == "UnexpectedType":
        return [("type", s(k["0"]), here, span)]
    if kv == "Custom":
        return [("custom", s(k["0"]), here, span)]
    if kv in ("TooFewItems", "TooManyItems", "UnknownValue", "UnsupportedShape"):
        return [(kv, s(list(k.values())[2]) if len(k) > 2 else None, here, span)]
    return [(kv, None, here, span)]


def flat_errors(v, st):
    """the viewed Vec<Error> produced by the real `flatten().into_iter().collect()`"""
    if isinstance(v, L):
        n = st.decisions.get(v.name + "#len", 0)
        v = [L("%s[%d]" % (v.name, i)) for i in range(n)]
    out = []
    for x in v:
        leaves = actual_errors(x, st)
        if len(leaves) != 1 and not isinstance(x, L):
            out.append(("unflattened-bundle", None, (), None))
        out.extend(leaves)
    return out


def expected_key(e, strict_span=True):
    k = e.key()
    what = k[1]
    if isinstance(what, str) and e.kind in ("duplicate", "missing", "format", "custom"):
        what = what
    return (k[0], what, k[2], k[3])


def match_errors(exp, act, st, check_spans):
    """multiset comparison of expected E's and actual leaves.  Returns (ok, explanation)"""
    act = list(act)
    problems = []
    for e in exp:
        ek = e.key()
        found = None
        for i, a in enumerate(act):
            akind, awhat, alocs, aspan = a
            if e.kind == "anyformat":
                if akind not in ("format", "type") or tuple(alocs) != tuple(e.locs):
                    continue
            elif e.kind == "syn":
                # syn::Error converted with From: Custom(message of the syn error), span = the syn error's span
                if akind != "custom" or tuple(alocs) != tuple(e.locs):
                    continue
                if awhat != z3.String(e.what + ".msg").sexpr():
                    continue
            elif e.kind == "conv":
                if akind != "conv" or awhat != e.what:
                    continue
                # own locations of the opaque error follow the path added by the receiver
                nown = getattr(e, "own_locs", None) or 0
                want = tuple(e.locs) + tuple(z3.String("%s.locations[%d]" % (e.what, j)).sexpr() for j in range(nown))
                if tuple(alocs) != want:
                    continue
            else:
                w = ek[1]
                if akind != e.kind or tuple(alocs) != tuple(e.locs):
                    continue
                if w is not None and awhat != w:
                    continue
            if check_spans:
                want = e.eff_span()
                if not span_ok(e, want, aspan):
                    problems.append("span of %r: expected %s%r, got %r" % (e, "" if e.own_span is not None else "inside ", want, aspan))
                    found = i
                    break
            found = i
            break
        if found is None:
            return False, "expected error %r not reported (actual: %r)" % (e, act)
        act.pop(found)
    if act:
        return False, "unexpected extra errors %r" % (act,)
    if problems:
        return False, "; ".join(problems)
    return True, ""


def span_ok(e, want, aspan):
    """C03: an error's own span is kept exactly; otherwise the span must be explicit and lie inside the node at fault
    (abstract origins: `inside` = the origin name extends the node's name); root-level absences are unspanned"""
    if want is None:
        return aspan is None
    if aspan is None:
        return False
    if e.own_span is not None:
        return tuple(aspan) == tuple(want)
    if aspan[0] not in ("node", "in") or want[0] not in ("node", "in"):
        return tuple(aspan) == tuple(want)
    return aspan[1] == want[1] or aspan[1].startswith(want[1] + ".") or aspan[1].startswith(want[1] + "[") or aspan[1].startswith(want[1] + "*")


def value_eqs(exp, got, eqs, path=""):
    """collect z3 equalities expected==got over the value trees; returns False on a structural mismatch"""
    if isinstance(got, dict) and "_" in got and got["_"].endswith("Opq") or (isinstance(got, dict) and got.get("_", "").endswith("OpqN")):
        got = got["0"]
    if isinstance(exp, dict):
        if not isinstance(got, dict):
            return False
        for k, v in exp.items():
            if k not in got or not value_eqs(v, got[k], eqs, path + "." + k):
                return False
        return True
    if isinstance(exp, list):
        if isinstance(got, L):
            return False
        if not isinstance(got, list) or len(got) != len(exp):
            return False
        return all(value_eqs(a, b, eqs, path + "[]") for a, b in zip(exp, got))
    if isinstance(exp, tuple) and exp and exp[0] == "some":
        if not (isinstance(got, dict) and got.get("_v") == "Some"):
            return False
        return value_eqs(exp[1], got["0"], eqs, path + ".some")
    if exp is None:
        return isinstance(got, dict) and got.get("_v") == "None"
    # scalar
    g = got
    if isinstance(g, L):
        # an untouched Opq / OpqN newtype: its payload is the field `.0`
        g = z3.BitVec(g.name + ".0", 32)
    e = exp
    if isinstance(e, int) and isinstance(g, int):
        return e == g
    if isinstance(e, int):
        e = z3.BitVecVal(e, 32)
    if isinstance(g, int):
        g = z3.BitVecVal(g, 32)
    if not (is_sym(e) and is_sym(g)):
        return False
    eqs.append(e == g)
    return True


# ---------------------------------------------------------------------------------------------- witnesses
class Text:
    """attribute body text with the source range of every rendered node"""

    def __init__(self):
        self.s = ""
        self.ranges = {}

    def put(self, t):
        self.s += t

    def mark(self, origin, start):
        self.ranges[origin] = (1, start, 1, len(self.s))


def model_str(mdl, var, fallback):
    if mdl is None:
        return fallback
    v = mdl.eval(var, model_completion=False)
    if z3.is_string_value(v):
        s = v.as_string()
        if s and (s[0].isalpha() or s[0] == "_") and all(c.isalnum() or c == "_" for c in s) and s not in ("_", "true", "false"):
            return s
    return fallback


def render_items(st, mdl, listname, out, uniq, oracle_vals=None):
    k = st.decisions.get(listname + "#len", 0)
    for i in range(k):
        if i:
            out.put(", ")
        base = "%s[%d]" % (listname, i)
        start = len(out.s)
        d = st.decisions.get(base + "#d", 0)
        if d == 1:
            out.put('"lit%d"' % i)
            out.mark(base + ".Lit.0", start)
            out.mark(base, start)
            continue
        meta = base + ".Meta.0"
        nseg = st.decisions.get(meta + ".path.segments#len", 1)
        segs = []
        for j in range(nseg):
            var = z3.String("%s.path.segments[%d].ident.sym" % (meta, j))
            uniq[0] += 1
            segs.append(model_str(mdl, var, "zq%d" % uniq[0]))
        out.put("::".join(segs))
        form = st.decisions.get(meta + "#d")
        if form is None and st.decisions.get(meta + "#not"):
            form = [f for f in (0, 1, 2) if f not in st.decisions[meta + "#not"]][0]
        conv = None
        for prefix in ("conv", "convw"):
            cd = st.decisions.get("%s(%s)#d" % (prefix, meta))
            if cd is not None:
                conv = (prefix, cd)
        if form == 1 or (form is None and False):
            pd = st.decisions.get(meta + ".List.0.tokens.parsed#d")
            if pd == 1:
                out.put("(=)")
                out.ranges[meta + ".List.0.tokens.parsed.Err.0.span"] = "unparseable"
            else:
                out.put("(")
                render_items(st, mdl, meta + ".List.0.tokens.parsed.Ok.0", out, uniq)
                out.put(")")
        elif form == 0:
            pass
        elif form == 2:
            out.put(" = ")
            vs = len(out.s)
            out.put("[1]")   # an expression that is neither a literal nor a group
            out.mark(meta + ".NameValue.0.value", vs)
        elif conv is not None:
            prefix, cd = conv
            if cd == 1:
                own = st.decisions.get("%s(%s).Err.0.span#d" % (prefix, meta))
                out.put(" = ")
                vs = len(out.s)
                out.put('"ERRS"' if own == 1 else '"ERR"')
                out.mark("%s(%s).Err.0.span.Some.0" % (prefix, meta), vs)
            else:
                var = z3.BitVec("%s(%s).Ok.0.0" % (prefix, meta), 32)
                val = 7
                if mdl is not None:
                    mv = mdl.eval(var, model_completion=False)
                    if z3.is_bv_value(mv):
                        val = mv.as_long()
                if prefix == "convw":
                    val = (val - 500) % (1 << 32)
                out.put(" = %d" % val)
        out.mark(meta, start)
        out.mark(base, start)


def expected_native(kind, val, st, mdl, text):
    """what the native runner must print for this leaf"""
    if kind == "ok":
        return {"result": {"ok": native_value(val, mdl)}}
    return None


def native_value(v, mdl):
    if isinstance(v, dict):
        return {k: native_value(x, mdl) for k, x in v.items()}
    if isinstance(v, list):
        return [native_value(x, mdl) for x in v]
    if isinstance(v, tuple) and v and v[0] == "some":
        return {"some": native_value(v[1], mdl)}
    if v is None:
        return None
    if isinstance(v, int):
        return v
    if is_sym(v):
        r = eval_default(mdl, v)
        if r is not None:
            return r
    raise ValueError("native_value %r" % (v,))


def free_vars(e, out=None):
    if out is None:
        out = {}
    if z3.is_const(e) and e.decl().kind() == z3.Z3_OP_UNINTERPRETED:
        out[e.decl().name()] = e
    else:
        for c in e.children():
            free_vars(c, out)
    return out


def eval_default(mdl, e, default=7):
    """value of bit-vector expression e under the model; variables the model leaves open take `default`"""
    subs = []
    for name, var in free_vars(e).items():
        val = None
        if mdl is not None:
            mv = mdl.eval(var, model_completion=False)
            if z3.is_bv_value(mv):
                val = mv
        if val is None:
            val = z3.BitVecVal(default, var.size()) if z3.is_bv(var) else None
        if val is None:
            return None
        subs.append((var, val))
    r = z3.simplify(z3.substitute(e, *subs)) if subs else z3.simplify(e)
    if z3.is_bv_value(r):
        return r.as_long()
    return None


MSG = {"format": "Unexpected meta-item format `%s`", "duplicate": "Duplicate field `%s`", "missing": "Missing field `%s`",
       "unknown": "Unknown field: `%s`", "custom": "%s"}


def native_errors(exp, st, mdl, text, strict_spans):
    """expected native error list [(msg, range|None)] for expected E's; None when not expressible"""
    out = []
    for e in exp:
        locs = list(e.locs)
        if e.kind == "conv":
            own = e.own_span is not None
            msg = "ERRS" if own else "ERR"
        elif e.kind == "unknown":
            w = e.what
            nm = None
            if is_sym(w) and mdl is not None:
                v = mdl.eval(w, model_completion=False)
                if z3.is_string_value(v):
                    nm = v.as_string()
            if nm is None:
                return None
            msg = MSG["unknown"] % nm
        elif e.kind in MSG:
            msg = MSG[e.kind] % e.what
        elif e.kind == "anyformat":
            msg = None
        elif e.kind == "syn":
            msg = None
        else:
            return None
        if msg is not None and locs:
            msg += " at " + "/".join(locs)
        sp = e.eff_span()
        rng = None
        if sp is not None:
            rng = text.ranges.get(sp[1])
            if rng is None or rng == "unparseable":
                rng = "any"
        out.append((msg, rng, locs, e.own_span is not None))
    return out


def compare_native_errors(expected, got):
    """expected: list of (msg|None, range|'any'|None, locs); got: native list of {msg, span, range}"""
    got = list(got)
    for ent in expected:
        msg, rng, locs = ent[:3]
        own = len(ent) > 3 and ent[3]
        hit = None
        for i, g in enumerate(got):
            if msg is not None and g["msg"] != msg:
                # suggestions may be appended to unknown-field messages
                if not (msg.startswith("Unknown field") and g["msg"].startswith(msg.split(" at ")[0]) and g["msg"].endswith(msg[len(msg.split(" at ")[0]):])):
                    continue
            if msg is None and locs and not g["msg"].endswith(" at " + "/".join(locs)):
                continue
            if rng is None:
                if g["span"]:
                    continue
            elif rng != "any":
                gr = g["range"]
                if gr is None:
                    continue
                if own:
                    if tuple(gr) != tuple(rng):
                        continue
                elif not (gr[0] == rng[0] and gr[2] == rng[2] and rng[1] <= gr[1] and gr[3] <= rng[3]):
                    continue
            else:
                if not g["span"]:
                    continue
            hit = i
            break
        if hit is None:
            return False
        got.pop(hit)
    return not got


KEYWORDS = ("as", "do", "fn", "if", "in", "box", "dyn", "for", "let", "mod", "mut", "pub", "ref", "try", "use", "else", "enum", "impl", "loop", "move", "priv", "self", "true", "type",
            "async", "await", "break", "const", "crate", "false", "final", "macro", "match", "super", "trait", "where", "while", "yield", "become", "extern", "return", "static",
            "struct", "typeof", "unsafe", "unsized", "virtual", "abstract", "continue", "override")


def ident_validity(st):
    """validity predicate of identifiers (used only when asking for witnesses)"""
    cs = []
    ident_re = z3.Concat(z3.Union(z3.Range("a", "z"), z3.Re("_")), z3.Star(z3.Union(z3.Range("a", "z"), z3.Range("0", "9"), z3.Re("_"))))
    for var, fact in (st.extra.get("sfacts") or {}).items():
        if var.endswith(".ident.sym") and not (fact != "complex" and fact[0] == "eq"):
            v = z3.String(var)
            cs.append(z3.InRe(v, ident_re))
            cs.append(z3.Length(v) >= 2)
            cs.append(z3.Length(v) <= 12)
            for kw in KEYWORDS:
                cs.append(v != z3.StringVal(kw))
    return cs


def judge(ck, mode, rname, I, e, l, kind, val, native, uniq, counter, nat_every, render):
    """compare one classified leaf with the reference outcome; replay natively"""
    while True:
        got = view(I, l, l.ret, e.local_tys[0])
        got_ok = isinstance(got, dict) and got.get("_v") == "Ok"
        ck.reach(kind)
        ck.reach("%s:%s" % (rname, kind))
        good = True
        why = ""
        if kind == "ok":
            if mode in ("C01", "C02"):
                if not got_ok:
                    good, why = False, "mistake-free input rejected: %r" % (got,)
                elif mode == "C01":
                    eqs = []
                    if not value_eqs(val, got["0"], eqs):
                        good, why = False, "value shape differs: expected %r got %r" % (val, got["0"])
                    elif eqs:
                        okv, _ = ck.smt_valid(l.pc, z3.And(eqs))
                        if not okv:
                            good, why = False, "field values differ from the declared mapping"
                    else:
                        ck.ok()
                else:
                    ck.ok()
            else:
                break
        else:
            if mode == "C01":
                break
            if got_ok:
                good, why = False, "input with mistakes accepted"
            else:
                act = flat_errors(got["0"], l)
                for e_ in val:
                    ck.reach("err:" + e_.kind)
                good, why = match_errors(val, act, l, check_spans=(mode == "C03"))
                if good:
                    ck.ok()
        counter[0] += 1
        need_native = (not good) or counter[0] % nat_every == 0 or (mode == "C01" and kind == "ok")
        if not need_native:
            break
        mdl = ck.model_of(list(l.pc) + ident_validity(l))
        if mdl is None:
            mdl = ck.model_of(l.pc)
        req, text = render(l, mdl)
        nat = native.ask(req)
        res = nat.get("result") if isinstance(nat, dict) else None
        if kind == "ok":
            try:
                expn = {"ok": native_value(val, mdl)}
            except ValueError:
                expn = None
            agree = (res == expn) if mode == "C01" else (isinstance(res, dict) and "ok" in res)
        else:
            exl = native_errors(val, l, mdl, text, mode == "C03")
            if isinstance(res, dict) and "err" in res and exl is not None:
                if mode != "C03":
                    exl = [(x[0], ("any" if x[1] else None), x[2]) for x in exl]
                    # spans are not part of C02: accept any span status
                    agree = compare_native_errors_nospan(exl, res["err"])
                else:
                    agree = compare_native_errors(exl, res["err"])
                expn = {"err": exl}
            else:
                agree = False if exl is not None else None
                expn = {"err": exl}
        if agree is None:
            break
        if good and agree:
            ck.native_agree += 1
            if len(ck.samples) < 10 and counter[0] % 7 == 0:
                ck.sample({"receiver": rname, "attribute_body": text.s, "expected": repr(expn)[:300], "native": repr(res)[:300],
                           "path_condition": [str(c)[:120] for c in l.pc][:8]})
        elif good and not agree:
            ck.report("%s:native:%s" % (rname, kind), "native outcome differs from the reference model",
                      {"property": ck.pid, "receiver": rname, "request": req, "expected": expn, "observed": nat})
        elif not good and agree:
            ck.obligations += 1
            ck.engine("%s: symbolic outcome disagrees with the oracle (%s) but the native run agrees with the oracle: %s" % (rname, why, req))
        else:
            ck.obligations += 1
            ck.report(violation_key(rname, kind, val, why), why,
                      {"property": ck.pid, "receiver": rname, "request": req, "expected": expn, "observed": nat, "symbolic": repr(got)[:1500]})
        break


# ---------------------------------------------------------------------------------------------- the check driver
QUICK_RECEIVERS = ["S1", "S2", "S3", "S4", "S5", "S6", "S7", "S8", "S8b", "S8c", "S8d", "S9", "S11", "S12", "S13", "S14", "S15", "S16"]
# receivers whose leaf count explodes get a smaller top-level bound: name -> (K quick, K thorough)
META_RECEIVERS = ["S1", "S2", "S9c"]
SMALL_K = {"S9": (1, 1)}


def run(ck, mode):
    """mode: 'C01' (mistake-free => exact value), 'C02' (errors one-to-one with mistakes), 'C03' (spans)"""
    quick = ck.tier == "quick"
    K = 2 if quick else 3
    nestedK = 1 if quick else 2
    ck.bounds = {"items_per_list": "0..%d" % K, "nested_list_items": "0..%d (0..1 below depth 1)" % nestedK, "nesting_depth": 3,
                 "path_segments": 1, "item_names": "unbounded (z3 strings)", "converted_values": "32-bit symbolic",
                 "receivers": QUICK_RECEIVERS}
    ck.outside = ["receivers outside the generated family (props/recv_spec.py)", "more than %d items in one list" % K,
                  "multi-segment item names", "leaf conversions other than the opaque Opq/OpqN types and nested receivers (built-in conversions: C11/C12)",
                  "element-level traits (C08/C16)"]
    ck.assumptions = ["opq_conv/opq_with (harness leaf conversions) are uninterpreted: any Ok(value) / Err(single leaf error of any kind, with or without span, 0..1 own locations)",
                      "syn token parsing is an uninterpreted outcome per token stream (Parser::parse2)",
                      "did_you_mean is an uninterpreted function here (suggestions are C17)",
                      "Clone of syn data is a structural copy; Spanned::span of an input node is the node's abstract origin"]
    mir = build.dump_mir("hrecv", opts=OPTS)
    prog = Program(mir)
    natbin = build.build_native("hrecv")
    nat_every = 3 if quick else 5
    only = os.environ.get("VERIF_RECV")
    names = only.split(",") if only else QUICK_RECEIVERS
    ck.run_jobs([(lambda sub, rname=rname: receiver_job(sub, mode, prog, natbin, rname, K, nestedK, quick, nat_every)) for rname in names])


def render_meta_text(l, mdl, uniq, root="item*"):
    """source text of a whole `syn::Meta` rooted at `root` (named zz)"""
    text = Text()
    text.put("zz")
    form = l.decisions.get(root + "#d")
    if form == 1:
        if l.decisions.get(root + ".List.0.tokens.parsed#d") == 1:
            text.put("(=)")
        else:
            text.put("(")
            render_items(l, mdl, root + ".List.0.tokens.parsed.Ok.0", text, uniq)
            text.put(")")
    elif form == 2:
        text.put(" = ")
        vs = len(text.s)
        text.put("[1]")
        text.mark(root + ".NameValue.0.value", vs)
    text.mark(root, 0)
    return text


def replay_panic(ck, native, key, l, req, extra=None):
    """a leaf that ends in a panic: confirm it against the real build before reporting (C07's subject, but a panic is never an
    expected outcome of any conversion).  req = native request reproducing the leaf's input, or None"""
    ck.obligations += 1
    if req is None:
        ck.engine("%s: symbolic panic %r and no witness could be rendered" % (key, l.panics))
        return False
    got = native.ask(req)
    if isinstance(got, dict) and "panic" in got:
        rep = {"property": ck.pid, "request": req, "observed": got, "panics": l.panics}
        rep.update(extra or {})
        ck.report("%s:panic" % key, "panics instead of returning an error (%s)" % "; ".join(map(str, l.panics))[:200], rep)
        return True
    ck.engine("%s: symbolic panic %r not reproduced natively (%s)" % (key, l.panics, req))
    return False


def receiver_job(ck, mode, prog, natbin, rname, K, nestedK, quick, nat_every):
    native = Native(natbin)
    uniq = [0]
    counter = [0]

    def render_list(l, mdl):
        text = Text()
        render_items(l, mdl, "items*", text, uniq)
        return "(from_list %s %s)" % (rname, sx_str(text.s)), text

    def render_meta(l, mdl):
        text = Text()
        text.put("zz")
        form = l.decisions.get("item*#d")
        if form == 1:
            if l.decisions.get("item*.List.0.tokens.parsed#d") == 1:
                text.put("(=)")
            else:
                text.put("(")
                render_items(l, mdl, "item*.List.0.tokens.parsed.Ok.0", text, uniq)
                text.put(")")
        elif form == 2:
            text.put(" = ")
            vs = len(text.s)
            text.put("[1]")
            text.mark("item*.NameValue.0.value", vs)
        text.mark("item*", 0)
        return "(from_meta %s %s)" % (rname, sx_str(text.s)), text
    if True:
        r = S.BY_NAME[rname]
        t_r = __import__("time").time()
        ck.programs.add("hrecv::%s" % rname)
        Kr = SMALL_K[rname][0 if quick else 1] if rname in SMALL_K else K
        I = Interp(prog, models.all_models(OPTS), Pol(Kr, nestedK), timeout_ms=ck.timeout_ms)
        e = prog.entry("entry_%s_flat" % rname)
        leaves = I.explore(e, [Lazy("items", e.local_tys[1])])
        ck.absorb(I, leaves, "entry_%s_flat" % rname)
        ck.check_exhaustive(I, leaves, rname)
        for l in leaves:
            if l.status == "panicked":
                # C07's business, but a panic is never the expected outcome here
                ck.obligations += 1
                mdl = ck.model_of(list(l.pc) + ident_validity(l))
                text = Text()
                render_items(l, mdl, "items*", text, uniq)
                req = "(from_list %s %s)" % (rname, sx_str(text.s))
                got = native.ask(req)
                if "panic" in got:
                    ck.report("%s:panic" % rname, "derived from_list panics", {"property": ck.pid, "request": req, "observed": got, "panics": l.panics})
                else:
                    ck.engine("%s: symbolic panic %r not reproduced natively (%s)" % (rname, l.panics, req))
                continue
            if l.status != "returned":
                continue
            orc = Oracle(ck, l)
            items = list_items(l, "items*")
            kind, val = orc.expect_struct(r, items)
            if kind in ("none", "unsupported") or orc.undetermined:
                ck.engine("%s: oracle could not classify a leaf (%s %r)" % (rname, kind, val))
                continue
            judge(ck, mode, rname, I, e, l, kind, val, native, uniq, counter, nat_every, render_list)
        if mode in ("C02", "C03") and rname in META_RECEIVERS:
            e2 = prog.entry("entry_%s_meta_flat" % rname)
            I2 = Interp(prog, models.all_models(OPTS), Pol(Kr, max(nestedK, 2)), timeout_ms=ck.timeout_ms)
            leaves2 = I2.explore(e2, [Lazy("item", e2.local_tys[1])])
            ck.absorb(I2, leaves2, "entry_%s_meta_flat" % rname)
            ck.check_exhaustive(I2, leaves2, rname + ":from_meta")
            for l in leaves2:
                if l.status == "panicked":
                    mdl = ck.model_of(list(l.pc) + ident_validity(l)) or ck.model_of(l.pc)
                    replay_panic(ck, native, rname + ":from_meta", l, render_meta(l, mdl)[0])
                    continue
                if l.status != "returned":
                    ck.engine("%s from_meta: leaf %s %s" % (rname, l.status, l.info or l.panics))
                    continue
                orc = Oracle(ck, l)
                it = Item("item")
                it.kind = "meta"
                it.meta = "item*"
                kind, val = orc.conv_leaf(dict(ty=rname, multiple=False, with_=None, map=None, and_then=None), it, r)
                if kind in ("none", "unsupported") or orc.undetermined:
                    ck.engine("%s from_meta: oracle could not classify a leaf (%s %r)" % (rname, kind, val))
                    continue
                judge(ck, mode, rname + ":from_meta", I2, e2, l, kind, val, native, uniq, counter, nat_every, render_meta)
        if os.environ.get("VERIF_VERBOSE"):
            print("  %s: %d leaves, %.1fs, solver %d" % (rname, len(leaves), __import__("time").time() - t_r, ck.solver_queries), flush=True)
    native.close()


def violation_key(rname, kind, val, why):
    if kind == "err":
        kinds = sorted(set(e.kind for e in val))
        return "%s:err:%s:%s" % (rname, "+".join(kinds), why.split(":")[0][:40])
    return "%s:ok:%s" % (rname, why.split(":")[0][:40])


def compare_native_errors_nospan(expected, got):
    got = list(got)
    for ent in expected:
        msg, rng, locs = ent[:3]
        hit = None
        for i, g in enumerate(got):
            if msg is not None and g["msg"] != msg:
                base = msg.split(" at ")[0]
                if not (msg.startswith("Unknown field") and g["msg"].startswith(base) and g["msg"].endswith(msg[len(base):])):
                    continue
            if msg is None and locs and not g["msg"].endswith(" at " + "/".join(locs)):
                continue
            hit = i
            break
        if hit is None:
            return False
        got.pop(hit)
    return not got
