"""C10 - derive-time validation accepts exactly the well-formed declarations (the `FromMeta` derive).

`darling_core::derive::from_meta` runs from MIR on a symbolic `DeriveInput` whose `#[darling(..)]` attributes carry items of
*symbolic name* and form (word, list, name = string / bool / int literal / path).  The reference model below is the rule table
of the property statement, evaluated over the decided declaration: unknown option names per position, repetition where it is an
error, flatten x {rename, with, skip = true, multiple = true} in either order, map x and_then, more than one flatten field, more
than one word variant, word on a non-unit variant, word x from_word, from_word on a unit / newtype struct, unions, tuple bodies
the trait cannot represent; plus the value forms each option accepts.  Obligation per leaf: the derive emits exactly one impl
iff no rule is violated; otherwise it emits exactly the expected diagnostics, each spanned inside the offending item and with the
rule's message.  Accumulation scopes are those of the statement: the options of one element, the fields of one struct, the
variants of one enum (a failing container attribute list stops before the body)."""
import os
import re
import sys
import z3

sys.path.insert(0, os.path.dirname(os.path.dirname(os.path.abspath(__file__))))
from vlib.prop import Check, Native, sx_str
from props import derive_common as D
from props.derive_common import Focus

ALL_OPTIONS = ("map", "and_then", "rename", "default", "with", "skip", "multiple", "flatten", "word", "from_word", "from_none", "rename_all", "bound", "allow_unknown_fields")
RULES = ("lowercase", "PascalCase", "camelCase", "snake_case", "SCREAMING_SNAKE_CASE", "kebab-case")


class X:
    """an expected diagnostic: message fragment + the input node its span must lie in (None: call site)"""

    def __init__(self, frag, origin, why):
        self.frag = frag
        self.origin = origin
        self.why = why

    def __repr__(self):
        return "X(%s @%s)" % (self.why, (self.origin or "-")[-60:])


class Decl:
    """the declaration of one leaf, read off the decisions"""

    def __init__(self, ck, prog, l, item_names=None):
        self.ck = ck
        self.l = l
        self.item_names = item_names
        self.exprv = [v["name"] for v in prog.find_ty("syn::Expr").adt["variants"]]
        self.litv = [v["name"] for v in prog.find_ty("syn::Lit").adt["variants"]]
        self.open = None

    def d(self, k):
        return self.l.decisions.get(k)

    def items_of(self, at):
        """[(origin, name | None (unknown), form, value-info)] of every item of the #[darling] attributes in the vector `at`; or an
        attribute-level problem ('attr-error', origin)"""
        out = []
        n = self.d(at + "#len") or 0
        for j in range(n):
            ab = "%s[%d]" % (at, j)
            f = self.d(ab + ".meta#d")
            if f is None:
                ns = self.d(ab + ".meta#not")
                if ns is not None and 1 in ns:
                    out.append(("attr-error", ab + ".meta", "Unexpected meta-item format"))     # a word or a name-value: the path treats them alike
                    continue
                self.open = "attribute form"
                return None
            if f == 0:
                out.append(("attr-error", ab + ".meta", "Unexpected meta-item format `word`"))
                continue
            if f == 2:
                out.append(("attr-error", ab + ".meta", "Unexpected meta-item format `name-value`"))
                continue
            lst = ab + ".meta.List.0.tokens.parsed"
            pd = self.d(lst + "#d")
            if pd is None:
                self.open = "attribute body parse outcome"
                return None
            if pd == 1:
                out.append(("attr-error", lst + ".Err.0", None))
                continue
            m = self.d(lst + ".Ok.0#len")
            if m is None:
                self.open = "attribute item count"
                return None
            for i in range(m):
                nb = "%s.Ok.0[%d]" % (lst, i)
                k = self.d(nb + "#d")
                if k is None:
                    self.open = "item kind"
                    return None
                if k == 1:
                    out.append(("item-error", nb, "Unexpected meta-item format `literal`"))
                    continue
                mb = nb + ".Meta.0"
                out.append(("item", mb, self.name(mb), self.value(mb)))
        return out

    def name(self, mb):
        wk = mb + ".path.segments[0].ident#word"
        if wk in self.l.decisions and self.item_names:
            return self.item_names[self.l.decisions[wk]]
        var = mb + ".path.segments[0].ident.sym"
        f = (self.l.extra.get("sfacts") or {}).get(var)
        if f and f != "complex" and f[0] == "eq":
            return f[1]
        if f == "complex":
            # the name also took part in identifier-to-identifier comparisons: ask the solver which option it is
            for c in ALL_OPTIONS:
                if self.ck.implies(self.l.pc, z3.String(var) == z3.StringVal(c)):
                    return c
        return None        # compared unequal to every option name the code knows at that position

    def value(self, mb):
        """('word',) | ('list',) | ('str', term-name, const | None) | ('bool', True | False) | ('int',) | ('path',) | None"""
        f = self.d(mb + "#d")
        if f is None:
            ns = self.d(mb + "#not")
            if ns is not None:
                return ("notform", frozenset(ns))
            return ("unread",)
        if f == 0:
            return ("word",)
        if f == 1:
            return ("list",)
        ex = mb + ".NameValue.0.value"
        d = self.d(ex + "#d")
        if d is None:
            return ("unread",)
        vn = self.exprv[d]
        if vn == "Path":
            return ("path",)
        if vn != "Lit":
            return ("other",)
        ld = self.d(ex + ".Lit.0.lit#d")
        if ld is None:
            ns = self.d(ex + ".Lit.0.lit#not")
            return ("lit-other", frozenset(self.litv[i] for i in ns)) if ns is not None else ("lit-unread",)
        k = self.litv[ld]
        if k == "Str":
            var = ex + ".Lit.0.lit.Str.0.value"
            fact = (self.l.extra.get("sfacts") or {}).get(var)
            const = fact[1] if (fact and fact != "complex" and fact[0] == "eq") else None
            excluded = fact[1] if (fact and fact != "complex" and fact[0] != "eq") else ()
            return ("str", ex + ".Lit.0.lit", const, tuple(excluded))
        if k == "Bool":
            bv = z3.Bool(ex + ".Lit.0.lit.Bool.0.value")
            if self.ck.implies(self.l.pc, bv):
                return ("bool", True)
            if self.ck.implies(self.l.pc, z3.Not(bv)):
                return ("bool", False)
            return ("bool", None)
        return ("int",)

    # ---- value acceptance per option type: True / False / None (not decidable from what the path inspected)
    def parse_ok(self, ty, v):
        key = "parse<%s>(%s.Str.0)#d" % (ty, v[1])
        pd = self.d(key)
        if pd is None:
            return None
        return pd == 0

    def as_bool(self, v):
        """(accepted?, value) of an Option<bool>-like option"""
        if v[0] == "word":
            return True, True
        if v[0] == "bool":
            return (True, v[1] if v[1] is not None else "?")
        if v[0] == "str":
            if v[2] in ("true", "false"):
                return True, v[2] == "true"
            if v[2] is None and not ({"true", "false"} <= set(v[3])):
                return None, None
            return False, None
        if v[0] in ("unread", "notform", "lit-unread"):
            return None, None
        return False, None

    def as_string(self, v):
        if v[0] == "str":
            return True
        if v[0] in ("unread", "notform", "lit-unread"):
            return None
        return False

    def as_path(self, v):
        if v[0] == "path":
            return True
        if v[0] == "str":
            return self.parse_ok("Path", v)
        if v[0] in ("unread", "notform", "lit-unread"):
            return None
        return False

    def as_callable(self, v):
        if v[0] == "path":
            return True
        if v[0] in ("unread", "notform"):
            return None
        return False          # every literal, whatever its kind

    def as_default(self, v):
        if v[0] == "word":
            return True
        if v[0] == "list":
            return False
        return self.as_path(v)

    def as_rule(self, v):
        if v[0] == "str":
            if v[2] is not None:
                return v[2] in RULES
            if set(RULES) <= set(v[3]):
                return False
            return None
        if v[0] in ("unread", "notform", "lit-unread"):
            return None
        return False

    def as_bound(self, v):
        if v[0] == "str":
            pk = [x for x in self.l.decisions if x.startswith("parse<WhereClause>(new(") and x.endswith("#d") and v[1] in x]
            if len(pk) != 1:
                return None
            return self.l.decisions[pk[0]] == 0
        if v[0] in ("unread", "notform", "lit-unread"):
            return None
        return False

    def nested_items(self, mb):
        """[(kind, form, word)] of the items of the nested list of the meta at mb, or None if a part was never inspected"""
        lst = mb + ".List.0.tokens.parsed"
        pd = self.d(lst + "#d")
        if pd is None:
            return None
        if pd == 1:
            return "parse-error"
        n = self.d(lst + ".Ok.0#len")
        if n is None:
            return None
        out = []
        for i in range(n):
            nb = "%s.Ok.0[%d]" % (lst, i)
            k = self.d(nb + "#d")
            if k is None:
                return out + ["unread"]
            if k == 1:
                out.append(("lit", None, None))
                continue
            f = self.d(nb + ".Meta.0#d")
            if f is None:
                ns = self.d(nb + ".Meta.0#not")
                out.append(("meta", "nonword" if (ns is not None and 0 in ns) else "unread", None))
                continue
            wk = nb + ".Meta.0.path.segments[0].ident#word"
            out.append(("meta", f, D.WORDS[self.l.decisions[wk]] if wk in self.l.decisions else None))
        return out

    def as_word_list(self, mb, v, allow_word):
        """PathList-like options: a list of bare words (any names).  True-ish (number of words + 1) / False / None"""
        if v[0] == "word":
            return 1 if allow_word else False
        if v[0] != "list":
            return None if v[0] in ("unread", "notform") else False
        items = self.nested_items(mb)
        if items is None:
            return None
        if items == "parse-error":
            return False
        for it in items:
            if it == "unread" or it[1] == "unread":
                return None
            if it[0] == "lit" or it[1] != 0:
                return False
        return len(items) + 1

    def as_shape_list(self, mb, v):
        if v[0] != "list":
            return None if v[0] in ("unread", "notform") else False
        items = self.nested_items(mb)
        if items is None:
            return None
        if items == "parse-error":
            return False
        for it in items:
            if it == "unread" or it[1] == "unread":
                return None
            if it[0] == "lit" or it[1] != 0:
                return False
            if it[2] is None:
                return None
            if it[2] not in VALID_SHAPE_WORDS:
                return False
        return True

    def variant_shape_errors(self, mb, v):
        """FromVariant's `supports(..)`: number of diagnostics (one per item that is not one of the five words; a non-list is one)"""
        if v[0] != "list":
            return None if v[0] in ("unread", "notform") else 1
        items = self.nested_items(mb)
        if items is None:
            return None
        if items == "parse-error":
            return 1
        n = 0
        for it in items:
            if it == "unread" or it[1] == "unread":
                return None
            if it[0] == "lit" or it[1] != 0:
                n += 1
            elif it[2] is None:
                return None
            elif it[2] not in ("any", "named", "newtype", "tuple", "unit"):
                n += 1
        return n

    def as_flag(self, v):
        if v[0] == "word":
            return True
        if v[0] in ("unread",):
            return None
        if v[0] == "notform":
            return False if 0 in v[1] else None
        return False


class Model:
    """the rule table"""

    def __init__(self, decl):
        self.dc = decl
        self.undecided = None

    def und(self, what):
        self.undecided = self.undecided or what

    def option_items(self, at, known, step):
        """walk the items of one element's attributes; `step(name, origin, value) -> [X]` handles a known option; returns [X]"""
        items = self.dc.items_of(at)
        if items is None:
            self.und(self.dc.open)
            return []
        out = []
        for it in items:
            if it[0] == "attr-error":
                out.append(X(it[2], it[1], "malformed attribute"))
            elif it[0] == "item-error":
                out.append(X(it[2], it[1], "literal item"))
            else:
                _, mb, name, val = it
                if name is None or name not in known:
                    out.append(X("Unknown field", mb, "unknown option"))
                else:
                    out.extend(step(name, mb, val))
        return out

    # ---------------------------------------------------------------- container
    def container(self, is_enum, outer=False):
        """outer = the element-level derives: attributes / forward_attrs / from_ident (/ supports) instead of from_word / from_none"""
        st = {"default": False, "post": None, "auf": False, "from_word": None, "from_none": False, "forward_attrs": False, "attributes": False}
        dc = self.dc

        def value_error(mb, ok):
            if ok is None:
                self.und("value acceptance of %s" % mb[-40:])
                return []
            return [] if ok else [X(None, mb, "value form rejected")]

        def step(name, mb, v):
            if name == "attributes":
                ok = dc.as_word_list(mb, v, allow_word=False)
                if ok:
                    st["attributes"] = ok
                return value_error(mb, ok if ok is None else bool(ok))
            if name == "forward_attrs":
                ok = dc.as_word_list(mb, v, allow_word=True)
                if ok:
                    st["forward_attrs"] = True
                return value_error(mb, ok if ok is None else bool(ok))
            if name == "from_ident":
                st["default"] = True          # any form is accepted; it installs a container default
                return []
            if name == "supports":
                if outer == "variant-supports":
                    bad = dc.variant_shape_errors(mb, v)
                    if bad is None:
                        self.und("shape words of %s" % mb[-40:])
                        return []
                    return [X(None, mb, "unknown shape word") for _ in range(bad)]
                ok = dc.as_shape_list(mb, v)
                return value_error(mb, ok)
            if name in ("from_word", "from_none"):
                if st[name]:
                    return [X("Duplicate field", mb, "repeated %s" % name)]
                ok = dc.as_callable(v)
                if ok:
                    st[name] = mb
                return value_error(mb, ok)
            if name == "default":
                if st["default"]:
                    return [X("Duplicate field", mb, "repeated default")]
                ok = dc.as_default(v)
                if ok:
                    st["default"] = True
                return value_error(mb, ok)
            if name == "rename_all":
                return value_error(mb, dc.as_rule(v))
            if name in ("map", "and_then"):
                if st["post"] == name:
                    return [X("Duplicate field", mb, "repeated %s" % name)]
                if st["post"] is not None:
                    return [X("mutually exclusive", mb, "map with and_then")]
                ok = dc.as_path(v)
                if ok:
                    st["post"] = name
                return value_error(mb, ok)
            if name == "bound":
                return value_error(mb, dc.as_bound(v))
            if name == "allow_unknown_fields":
                if st["auf"]:
                    return [X("Duplicate field", mb, "repeated allow_unknown_fields")]
                ok, _ = dc.as_bool(v)
                if ok:
                    st["auf"] = True
                return value_error(mb, ok)
            raise AssertionError(name)
        core = ("default", "rename_all", "map", "and_then", "bound", "allow_unknown_fields")
        known = (("attributes", "forward_attrs", "from_ident") + (("supports",) if outer in ("supports", "variant-supports") else ()) + core) if outer else (("from_word", "from_none") + core)
        errs = self.option_items("di*.attrs", known, step)
        return errs, st

    # ---------------------------------------------------------------- field
    def field(self, fb):
        st = {"rename": False, "default": False, "with": False, "skip": None, "post": None, "multiple": None, "flatten": None}
        dc = self.dc

        def value_error(mb, ok):
            if ok is None:
                self.und("value acceptance of %s" % mb[-40:])
                return []
            return [] if ok else [X(None, mb, "value form rejected")]

        def step(name, mb, v):
            if name == "rename":
                if st["rename"]:
                    return [X("Duplicate field", mb, "repeated rename")]
                ok = dc.as_string(v)
                if not ok:
                    return value_error(mb, ok)
                st["rename"] = True
                return [X("`flatten` and `rename` cannot be used together", mb, "flatten with rename")] if st["flatten"] else []
            if name == "default":
                if st["default"]:
                    return [X("Duplicate field", mb, "repeated default")]
                ok = dc.as_default(v)
                if ok:
                    st["default"] = True
                return value_error(mb, ok)
            if name == "with":
                if st["with"]:
                    return [X("Duplicate field", mb, "repeated with")]
                ok = dc.as_callable(v)
                if not ok:
                    return value_error(mb, ok)
                st["with"] = True
                return [X("`flatten` and `with` cannot be used together", mb, "flatten with with")] if st["flatten"] else []
            if name == "skip":
                if st["skip"] is not None:
                    return [X("Duplicate field", mb, "repeated skip")]
                ok, val = dc.as_bool(v)
                if not ok:
                    return value_error(mb, ok)
                st["skip"] = val
                if val == "?" and st["flatten"]:
                    self.und("value of skip")
                    return []
                return [X("`flatten` and `skip` cannot be used together", mb, "flatten with skip")] if (val is True and st["flatten"]) else []
            if name in ("map", "and_then"):
                if st["post"] == name:
                    return [X("Duplicate field", mb, "repeated %s" % name)]
                if st["post"] is not None:
                    return [X("mutually exclusive", mb, "map with and_then")]
                ok = dc.as_path(v)
                if ok:
                    st["post"] = name
                return value_error(mb, ok)
            if name == "multiple":
                if st["multiple"] is not None:
                    return [X("Duplicate field", mb, "repeated multiple")]
                ok, val = dc.as_bool(v)
                if not ok:
                    return value_error(mb, ok)
                st["multiple"] = val
                if val == "?" and st["flatten"]:
                    self.und("value of multiple")
                    return []
                return [X("`flatten` and `multiple` cannot be used together", mb, "flatten with multiple")] if (val is True and st["flatten"]) else []
            if name == "flatten":
                if st["flatten"]:
                    return [X("Duplicate field", mb, "repeated flatten")]
                ok = dc.as_flag(v)
                if not ok:
                    return value_error(mb, ok)
                st["flatten"] = mb
                out = []
                if st["multiple"] == "?" or st["skip"] == "?":
                    self.und("value of skip / multiple")
                if st["multiple"] is True:
                    out.append(X("`flatten` and `multiple` cannot be used together", mb, "flatten with multiple"))
                if st["rename"]:
                    out.append(X("`flatten` and `rename` cannot be used together", mb, "flatten with rename"))
                if st["with"]:
                    out.append(X("`flatten` and `with` cannot be used together", mb, "flatten with with"))
                if st["skip"] is True:
                    out.append(X("`flatten` and `skip` cannot be used together", mb, "flatten with skip"))
                return out
            raise AssertionError(name)
        errs = self.option_items(fb + ".attrs", ("rename", "default", "with", "skip", "map", "and_then", "multiple", "flatten"), step)
        return errs, st

    # ---------------------------------------------------------------- variant
    def variant(self, vb, is_unit):
        st = {"rename": False, "skip": False, "word": None}
        dc = self.dc

        def value_error(mb, ok):
            if ok is None:
                self.und("value acceptance of %s" % mb[-40:])
                return []
            return [] if ok else [X(None, mb, "value form rejected")]

        def step(name, mb, v):
            if name == "rename":
                if st["rename"]:
                    return [X("Duplicate field", mb, "repeated rename")]
                ok = dc.as_string(v)
                if ok:
                    st["rename"] = True
                return value_error(mb, ok)
            if name == "skip":
                if st["skip"]:
                    return [X("Duplicate field", mb, "repeated skip")]
                ok, _ = dc.as_bool(v)
                if ok:
                    st["skip"] = True
                return value_error(mb, ok)
            if name == "word":
                if st["word"] is not None:
                    return [X("Duplicate field", mb, "repeated word")]
                if not is_unit:
                    return [X("can only be applied to a unit variant", mb, "word on a non-unit variant")]
                ok, val = dc.as_bool(v)
                if not ok:
                    return value_error(mb, ok)
                st["word"] = (mb, val)
                return []
            raise AssertionError(name)
        errs = self.option_items(vb + ".attrs", ("rename", "skip", "word"), step)
        return errs, st

    # ---------------------------------------------------------------- whole declaration (FromMeta)
    def from_meta(self):
        dc = self.dc
        dk = dc.d("di*.data#d")
        if dk is None:
            self.und("body kind")
            return []
        if dk == 2:
            return [X("Unions are not supported", None, "union")]
        cerrs, cst = self.container(dk == 1)
        if cerrs:
            return cerrs          # a failing container attribute list stops before the body
        out = []
        if dk == 0:
            fb = "di*.data.Struct.0.fields"
            style = dc.d(fb + "#d")
            if style is None:
                self.und("struct style")
                return []
            flattens = []
            nfields = 0
            if style != 2:
                lst = fb + (".Named.0.named" if style == 0 else ".Unnamed.0.unnamed")
                n = dc.d(lst + "#len")
                if n is None:
                    self.und("field count")
                    return []
                nfields = n
                for i in range(n):
                    ferrs, fst = self.field("%s[%d]" % (lst, i))
                    out.extend(ferrs)
                    if not ferrs and fst["flatten"]:
                        flattens.append(fst["flatten"])
            if len(flattens) > 1:
                for fl in flattens:
                    out.append(X("can only be applied to one field", fl, "more than one flatten field"))
            if style == 1 and nfields != 1:
                out.append(X("tuple structs with exactly one field", "di*.ident", "tuple struct the trait cannot represent"))
            if cst["from_word"]:
                if style == 2:
                    out.append(X("`from_word` cannot be used on unit structs", cst["from_word"], "from_word on a unit struct"))
                elif style == 1 and nfields == 1:
                    out.append(X("`from_word` cannot be used on newtype structs", cst["from_word"], "from_word on a newtype struct"))
            return out
        n = dc.d("di*.data.Enum.0.variants#len")
        if n is None:
            self.und("variant count")
            return []
        words = []
        for i in range(n):
            vb = "di*.data.Enum.0.variants[%d]" % i
            style = dc.d(vb + ".fields#d")
            if style is None:
                self.und("variant style")
                return []
            if style == 1:
                m = dc.d(vb + ".fields.Unnamed.0.unnamed#len")
                if m is None:
                    self.und("variant field count")
                    return []
                if m != 1:
                    out.append(X("tuple variants with exactly one field", vb, "tuple variant the trait cannot represent"))
                    continue
            verrs, vst = self.variant(vb, style == 2)
            if verrs:
                out.extend(verrs)
                continue
            # the variant's fields: the first failing field ends the variant
            failed = False
            if style != 2:
                lst = vb + ".fields" + (".Named.0.named" if style == 0 else ".Unnamed.0.unnamed")
                m = dc.d(lst + "#len")
                if m is None:
                    self.und("variant field count")
                    return []
                for j in range(m):
                    ferrs, _ = self.field("%s[%d]" % (lst, j))
                    if ferrs:
                        out.extend(ferrs)
                        failed = True
                        break
            if not failed and vst["word"] is not None:
                if vst["word"][1] == "?":
                    self.und("value of word")
                elif vst["word"][1]:
                    words.append(vst["word"][0])
        if words and cst["from_word"]:
            out.append(X("`from_word` cannot be used with an enum that also uses `word`", cst["from_word"], "word with from_word"))
        if len(words) > 1:
            for w in words:
                out.append(X("can only be applied to one variant", w, "more than one word variant"))
        return out


UNREAD_MAGIC = {"from_derive_input": ("ident", "vis", "generics"), "from_field": ("ident", "vis", "ty"), "from_variant": ("ident", "discriminant", "fields"),
                "from_type_param": ("ident", "bounds", "default"), "from_attributes": ("ident",)}
FORWARDED_MAGIC = {"from_derive_input": ("attrs", "data"), "from_field": ("attrs",), "from_variant": ("attrs",), "from_type_param": ("attrs",), "from_attributes": ("attrs",)}


def model_from_derive_input(md, field_names, derive="from_derive_input"):
    """the element-level derives: OuterFrom (+ the derive's own magic members and `supports`) on top of Core"""
    dc = md.dc
    dk = dc.d("di*.data#d")
    if dk is None:
        md.und("body kind")
        return []
    if dk == 1:
        return [X("can only be derived for structs", "di*.ident", "enum for an element-level trait")]
    if dk == 2:
        return [X("Unions are not supported", None, "union")]
    cerrs, cst = md.container(False, outer={"from_derive_input": "supports", "from_variant": "variant-supports"}.get(derive, True))
    if cerrs:
        return cerrs
    out = []
    fb = "di*.data.Struct.0.fields"
    style = dc.d(fb + "#d")
    if style is None:
        md.und("struct style")
        return []
    flattens = []
    attrs_field = None
    if style != 2:
        lst = fb + (".Named.0.named" if style == 0 else ".Unnamed.0.unnamed")
        n = dc.d(lst + "#len")
        if n is None:
            md.und("field count")
            return []
        for i in range(n):
            fbase = "%s[%d]" % (lst, i)
            fname = field_names[i] if style == 0 else None
            if fname in UNREAD_MAGIC[derive]:
                continue                                   # taken over as they are: their attributes are not read
            if fname in FORWARDED_MAGIC[derive]:
                ferrs = md.forwarded_field(fbase)
                out.extend(ferrs)
                if fname == "attrs" and not ferrs:
                    attrs_field = fbase
                continue
            ferrs, fst = md.field(fbase)
            out.extend(ferrs)
            if not ferrs and fst["flatten"]:
                flattens.append(fst["flatten"])
    if len(flattens) > 1:
        for fl in flattens:
            out.append(X("can only be applied to one field", fl, "more than one flatten field"))
    if attrs_field is not None and not cst["forward_attrs"]:
        out.append(X("`forward_attrs` is not set", attrs_field, "attrs field without forward_attrs"))
    if derive == "from_attributes" and not out:
        parsed_newtype = style == 1 and dc.d(fb + ".Unnamed.0.unnamed#len") == 1
        names = (cst["attributes"] - 1) if cst["attributes"] else 0
        if not parsed_newtype and names == 0:
            out.append(X("FromAttributes without attributes collects nothing", None, "FromAttributes without attributes"))
    return out


def _forwarded_field(self, fb):
    """the magic `attrs` / `data` members: only `with = path`, once"""
    st = {"with": False}
    dc = self.dc

    def step(name, mb, v):
        if st["with"]:
            return [X("Duplicate field", mb, "repeated with")]
        ok = dc.as_path(v)
        if ok is None:
            self.und("value acceptance of %s" % mb[-40:])
            return []
        if not ok:
            return [X(None, mb, "value form rejected")]
        st["with"] = True
        return []
    return self.option_items(fb + ".attrs", ("with",), step)


Model.forwarded_field = _forwarded_field


def span_in(span, origin):
    if origin is None:
        return True
    if span is None or not isinstance(span, tuple) or len(span) < 2 or not isinstance(span[1], str):
        return False
    return span[1] == origin or span[1].startswith(origin + ".") or span[1].startswith(origin + "[")


def text_of(msg):
    if isinstance(msg, str):
        return msg
    try:
        return z3.simplify(msg).sexpr()
    except Exception:      # noqa: BLE001
        return str(msg)


def match(exp, got):
    """bijection between expected diagnostics and the (span, message) pairs of the emitted compile errors"""
    rest = list(got)
    for x in exp:
        hit = None
        for i, (sp, msg) in enumerate(rest):
            if not span_in(sp, x.origin):
                continue
            if x.frag is not None and x.frag not in text_of(msg):
                continue
            hit = i
            break
        if hit is None:
            return False, "expected diagnostic missing: %r" % (x,)
        rest.pop(hit)
    if rest:
        return False, "unexpected extra diagnostic(s): %s" % [text_of(m)[:80] for _, m in rest]
    return True, ""


def focuses(quick):
    fs = [
        Focus("shapes-struct", body=("Struct",), style=("Named", "Unnamed", "Unit"), nf=(0, 2)),
        Focus("shapes-enum", body=("Enum",), style=("Named", "Unnamed", "Unit"), nf=(0, 2), nv=(0, 2)),
        Focus("union", body=("Union",)),
        Focus("container-2items", body=("Struct",), style=("Named",), nf=(1, 1), cattrs=(1, 1), items=(0, 2), simple=True),
        Focus("container-2attrs", body=("Enum",), style=("Unit",), nv=(1, 1), cattrs=(2, 2), items=(0, 1), simple=True),
        Focus("from_word-shapes", body=("Struct",), style=("Named", "Unnamed", "Unit"), nf=(0, 2), cattrs=(1, 1), items=(1, 1), simple=True),
        Focus("field-2items", body=("Struct",), style=("Named",), nf=(1, 1), fattrs=(1, 1), items=(0, 2), simple=True),
        Focus("tuple-field-2items", body=("Struct",), style=("Unnamed",), nf=(1, 1), fattrs=(1, 1), items=(0, 2), simple=True),
        Focus("field-2attrs", body=("Struct",), style=("Named",), nf=(1, 1), fattrs=(2, 2), items=(0, 1), simple=True),
        Focus("two-fields", body=("Struct",), style=("Named",), nf=(2, 2), fattrs=(0, 1), items=(0, 1), simple=True),
        Focus("variant-2items", body=("Enum",), style=("Unit", "Unnamed", "Named"), nf=(0, 1), nv=(1, 1), vattrs=(1, 1), items=(0, 2), simple=True),
        Focus("two-variants", body=("Enum",), style=("Unit",), nv=(2, 2), vattrs=(0, 1), items=(0, 1), simple=True),
        Focus("word-from_word", body=("Enum",), style=("Unit",), nv=(1, 1), cattrs=(1, 1), vattrs=(1, 1), items=(1, 1), simple=True),
        Focus("word-from_word-2", body=("Enum",), style=("Unit",), nv=(2, 2), cattrs=(1, 1), vattrs=(1, 1), items=(1, 1), simple=True, item_names=["word", "from_word", "skip"]),
        Focus("variant-field", body=("Enum",), style=("Named",), nf=(1, 2), nv=(1, 1), fattrs=(0, 1), items=(0, 1), simple=True),
    ]
    if not quick:
        fs += [
            Focus("three-variants", body=("Enum",), style=("Unit",), nv=(3, 3), vattrs=(0, 1), items=(0, 1), simple=True),
            Focus("variant-2attrs", body=("Enum",), style=("Unit", "Unnamed", "Named"), nf=(0, 1), nv=(1, 1), vattrs=(2, 2), items=(0, 1), simple=True),
        ]
    return fs


def job(ck, prog, natbin, focus, quick, derive="from_meta"):
    native = Native(natbin)
    I, e, leaves = D.explore(ck, prog, derive, focus)
    cnt = 0
    for l in leaves:
        if l.status not in ("returned", "panicked"):
            ck.obligations += 1
            ck.engine("%s[%s]: leaf %s %s" % (derive, focus.tag, l.status, str(l.info)[:300]))
            continue
        out = D.outcome(I, l)
        src = D.Src(prog, l, lambda l=l: ck.model_of(l.pc), darling=focus.only_darling, item_names=focus.item_names)
        dc = Decl(ck, prog, l, focus.item_names)
        md = Model(dc)
        exp = md.from_meta() if derive == "from_meta" else model_from_derive_input(md, focus.field_names, derive)
        text = src.item_source(focus.field_names)
        req = "(derive %s %s)" % (derive, sx_str(text))
        if out[0] == "panic":
            ck.obligations += 1
            nat = native.ask(req)
            if isinstance(nat, dict) and "panic" in nat:
                ck.report("%s:%s:panic" % (derive, focus.tag), "the derive panics (%s)" % str(out[1])[:120], {"property": "C10", "crate": "hmacro", "request": req, "observed": nat})
            else:
                ck.engine("%s[%s]: symbolic panic %r not reproduced (%s)" % (derive, focus.tag, out[1], req))
            continue
        if md.undecided:
            # the table needs a part of the declaration this path never inspected: replay the default completion and compare verdicts only
            ck.obligations += 1
            nat = native.ask(req)
            ck.engine("%s[%s]: the rule table needs the %s, which this path never inspected (%s -> %s)" % (derive, focus.tag, md.undecided, req, str(nat)[:100]))
            continue
        if exp:
            good, why = (out[0] == "errors"), "an impl is emitted although %r" % (exp,)
            if good:
                good, why = match(exp, out[1])
            for x in exp:
                ck.reach("rule:" + x.why.split(" of ")[0])
        else:
            good, why = (out[0] == "impl" and out[1] == 1), "rejected although no rule is violated: %s" % ([text_of(m)[:80] for _, m in out[1]] if out[0] == "errors" else out[:2],)
            ck.reach("accepted")
        cnt += 1
        if good:
            ck.ok()
            if src.unrealisable or cnt % (5 if quick else 9):
                continue
        else:
            ck.obligations += 1
        nat = native.ask(req)
        r = nat.get("result", {}) if isinstance(nat, dict) else {}
        if isinstance(r, dict) and "parse_error" in r or src.unrealisable:
            if not good:
                ck.engine("%s[%s]: %s; witness not replayable (%s)" % (derive, focus.tag, why, req))
            continue
        n_impl, n_err = r.get("impls"), len(r.get("errors", []))
        agree = (n_impl == 1 and n_err == 0) if not exp else (n_impl == 0 and n_err == len(exp) and all(
            x.frag is None or any(x.frag in m for m in r["errors"]) for x in exp))
        if good and agree:
            ck.native_agree += 1
            if len(ck.samples) < 10 and exp:
                ck.sample({"source": text, "expected": [x.why for x in exp], "native": r})
        elif good:
            ck.report("%s:%s:native" % (derive, focus.tag), "native verdict differs from the rule table", {"property": "C10", "crate": "hmacro", "request": req, "expected": [repr(x) for x in exp], "observed": nat})
        elif agree:
            ck.engine("%s[%s]: %s, but the native run agrees with the rule table (%s)" % (derive, focus.tag, why, req))
        else:
            key = "%s:%s:%s" % (derive, focus.tag, (exp[0].why if exp else "accepts-well-formed"))
            ck.report(key, why, {"property": "C10", "crate": "hmacro", "request": req, "expected": [repr(x) for x in exp], "observed": nat, "symbolic": repr(out)[:400]})
    native.close()


# ------------------------------------------------------------------------------------------------ shape words of `supports(..)`
VALID_SHAPE_WORDS = {"any"} | {"%s_%s" % (a, b) for a in ("struct", "enum") for b in ("any", "named", "tuple", "newtype", "unit")}


def supports_job(ck, prog, natbin, quick):
    """`#[darling(supports(w1, w2))]` on the FromDeriveInput derive: accepted iff every word is a documented shape word"""
    native = Native(natbin)
    focus = Focus("supports-words", body=("Struct",), style=("Named",), nf=(1, 1), cattrs=(1, 1), items=(1, 1), simple=True, item_names=["supports"],
                  field_names=["field_a", "field_b", "field_c"])
    I, e, leaves = D.explore(ck, prog, "from_derive_input", focus)
    for l in leaves:
        if l.status not in ("returned", "panicked"):
            ck.obligations += 1
            ck.engine("supports: leaf %s %s" % (l.status, str(l.info)[:200]))
            continue
        out = D.outcome(I, l)
        src = D.Src(prog, l, lambda l=l: ck.model_of(l.pc), darling=True, item_names=focus.item_names)
        text = src.item_source(focus.field_names)
        req = "(derive from_derive_input %s)" % sx_str(text)
        it = "di*.attrs[0].meta.List.0.tokens.parsed.Ok.0[0].Meta.0"
        lst = it + ".List.0.tokens.parsed"
        if l.decisions.get("di*.attrs[0].meta#d") != 1 or l.decisions.get("di*.attrs[0].meta.List.0.tokens.parsed#d") != 0 or \
                l.decisions.get("di*.attrs[0].meta.List.0.tokens.parsed.Ok.0[0]#d") != 0 or l.decisions.get(it + "#d") != 1 or l.decisions.get(lst + "#d") != 0:
            continue        # not a well-formed `supports(..)` list: C06's subject
        n = l.decisions.get(lst + ".Ok.0#len", 0)
        words = []
        plain = True
        for i in range(n):
            nb = "%s.Ok.0[%d]" % (lst, i)
            wk = nb + ".Meta.0.path.segments[0].ident#word"
            if l.decisions.get(nb + "#d") != 0 or l.decisions.get(nb + ".Meta.0#d") != 0 or wk not in l.decisions:
                plain = False
                break
            words.append(D.WORDS[l.decisions[wk]])
        if not plain:
            continue
        bad = [w for w in words if w not in VALID_SHAPE_WORDS]
        ck.reach("supports:" + ("rejects" if bad else "accepts"))
        good = (out[0] == "errors" and len(out[1]) >= 1) if bad else (out[0] == "impl")
        if good:
            ck.ok()
            continue
        ck.obligations += 1
        nat = native.ask(req)
        r = nat.get("result", {}) if isinstance(nat, dict) else {}
        native_ok = (r.get("impls") == 0 and len(r.get("errors", [])) >= 1) if bad else (r.get("impls") == 1)
        if native_ok:
            ck.engine("supports%r: symbolic verdict %r differs from the table but the native run agrees with it (%s)" % (words, out[:1], req))
        else:
            ck.report("from_derive_input:supports:%s" % ("unknown-word-accepted" if bad else "valid-word-rejected"),
                      "supports(%s): %s" % (", ".join(words), "accepted although %r is not a shape word" % bad if bad else "rejected although every word is a shape word"),
                      {"property": "C10", "crate": "hmacro", "request": req, "words": words, "observed": nat})
    native.close()


def prepare(ck):
    ck.crate = "hmacro"
    quick = ck.tier == "quick"
    prog, natbin = D.load()
    fs = focuses(quick)
    only = os.environ.get("VERIF_FOCUS")
    if only:
        fs = [f for f in fs if f.tag in only.split(",")]
    ck.programs.add("darling_core::derive::from_meta")
    ck.bounds = {"derive": "FromMeta", "explorations": [f.tag for f in fs], "option names": "unbounded strings", "option value forms": "word, list, name = string / bool / int literal / path",
                 "items": "0..2 per attribute (3 in thorough), 1..2 attributes per element, 1..2 (3) fields / variants with 0..1 attribute each",
                 "identifiers": "concrete; attribute paths are `darling` (other attributes are ignored: C06 / C08)"}
    ck.outside = ["the five element-level derives' own options (attributes, forward_attrs, supports, from_ident, magic members): their totality is C06, their shape words C18(b)",
                  "option values of other expression forms (their conversions are C11 / C13)", "longer option lists than the bounds"]
    ck.assumptions = ["the parse of a string literal option value (path, where clause) is an uninterpreted outcome", "as C06 (quote runtime, ident_case)"]
    jobs = [(lambda sub, f=f: job(sub, prog, natbin, f, quick)) for f in fs]
    fdi = [
        Focus("fdi-shapes", body=("Struct", "Enum", "Union"), style=("Named", "Unnamed", "Unit"), nf=(0, 2), nv=(0, 1), field_names=["field_a", "field_b", "field_c"]),
        Focus("fdi-container-2items", body=("Struct",), style=("Named",), nf=(1, 1), cattrs=(1, 1), items=(0, 2), simple=True, field_names=["field_a", "field_b", "field_c"]),
        Focus("fdi-attrs-field", body=("Struct",), style=("Named",), nf=(2, 2), cattrs=(0, 1), fattrs=(0, 1), items=(0, 1), simple=True, field_names=["attrs", "field_b", "field_c"],
              item_names=["forward_attrs", "attributes", "with", "rename", "zzz"]),
        Focus("fdi-magic-fields", body=("Struct",), style=("Named",), nf=(3, 3), fattrs=(0, 1), items=(0, 1), simple=True, field_names=["ident", "data", "vis"]),
        Focus("fdi-attrs-2items", body=("Struct",), style=("Named",), nf=(1, 1), cattrs=(1, 1), fattrs=(1, 1), items=(1, 2), simple=True, field_names=["attrs", "field_b", "field_c"],
              item_names=["forward_attrs", "with"]),
    ]
    if only:
        fdi = [f for f in fdi if f.tag in only.split(",")]
    for f in fdi:
        jobs.append(lambda sub, f=f: job(sub, prog, natbin, f, quick, derive="from_derive_input"))
    if fdi:
        ck.programs.add("darling_core::derive::from_derive_input")
    # the four other element-level derives: same OuterFrom code, their own magic members, `supports` on FromVariant, the FromAttributes rule
    magic3 = {"from_field": ["ident", "ty", "attrs"], "from_variant": ["fields", "discriminant", "attrs"], "from_type_param": ["bounds", "default", "attrs"],
              "from_attributes": ["attrs", "field_b", "field_c"]}
    for dv, names3 in magic3.items():
        others = [
            Focus("%s-shapes" % dv, body=("Struct", "Enum", "Union"), style=("Named", "Unnamed", "Unit"), nf=(0, 2), nv=(0, 1), field_names=["field_a", "field_b", "field_c"]),
            Focus("%s-container" % dv, body=("Struct",), style=("Named", "Unnamed"), nf=(1, 1), cattrs=(0, 1), items=(0, 2), simple=True, field_names=["field_a", "field_b", "field_c"],
                  item_names=["attributes", "forward_attrs", "supports", "from_ident", "default", "zzz"]),
            Focus("%s-magic" % dv, body=("Struct",), style=("Named",), nf=(3, 3), fattrs=(0, 1), items=(0, 1), simple=True, field_names=names3,
                  item_names=["forward_attrs", "with", "rename", "zzz"]),
        ]
        if only:
            others = [f for f in others if f.tag in only.split(",")]
        for f in others:
            jobs.append(lambda sub, f=f, dv=dv: job(sub, prog, natbin, f, quick, derive=dv))
        if others:
            ck.programs.add("darling_core::derive::%s" % dv)
    if not only:
        ck.programs.add("darling_core::derive::from_derive_input (supports words)")
        jobs.append(lambda sub: supports_job(sub, prog, natbin, quick))
    return jobs


def main():
    ck = Check("C10")
    ck.run_jobs(prepare(ck))
    if not os.environ.get("VERIF_FOCUS"):
        ck.require_reached(["accepted", "rule:unknown option", "rule:flatten with rename", "rule:map with and_then", "rule:more than one flatten field", "rule:more than one word variant",
                            "rule:word on a non-unit variant", "rule:word with from_word", "rule:from_word on a unit struct", "rule:union", "rule:tuple struct the trait cannot represent"])
    ck.finish()


if __name__ == "__main__":
    main()
