"""Shared machinery of the derive-time properties (C06, C10): the six `darling_core::derive::*` functions executed on a lazily
initialised symbolic `syn::DeriveInput`.

The whole pipeline runs from MIR: `options::*::new` (Core::start, parse_attributes, parse_attr, every parse_nested chain, the
option values' FromMeta conversions, parse_body, validate_body), `From<&Options> for *Impl`, every `ToTokens` of `codegen/*`
through a token-level model of quote!'s runtime (`push_*` = append an abstract token), and `Error::write_errors`.

Bounds are imposed by *focus*: each exploration fixes the parts of the item that are not its subject (e.g. "one attributed
field of a named struct, nothing else") so that the symbolic parts stay within reach."""
import os
import re
import sys
import z3

sys.path.insert(0, os.path.dirname(os.path.dirname(os.path.abspath(__file__))))
from vlib import build
from vlib.prop import Native, sx_str
from mirsym import Program, Interp, models, Lazy, Opaque, syn_models, harness_models  # noqa: F401
from props import C13

OPTS = ("no_dym", "strbool")
DERIVES = ["from_meta", "from_derive_input", "from_field", "from_variant", "from_type_param", "from_attributes"]
FIELD_NAMES = ["field_a", "field_b", "field_c"]
VARIANT_NAMES = ["VariantA", "VariantB", "VariantC"]


NESTED_WORD = re.compile(r"\.parsed\.Ok\.0\[\d+\]\.Meta\.0\.List\.0\.tokens\.parsed\.Ok\.0\[\d+\]\.Meta\.0\.path\.segments\[0\]\.ident$")
TOP_ITEM = re.compile(r"\.attrs\[\d+\]\.meta\.List\.0\.tokens\.parsed\.Ok\.0\[\d+\]\.Meta\.0\.path\.segments\[0\]\.ident$")
WORDS = ["any", "struct_named", "struct_any", "struct_newtype", "enum_unit", "enum_tuple", "struct_struct_named", "enum_enum_any", "struct_bogus", "enum_", "bogus", "doc",
         "named", "newtype", "unit"]


class Focus:
    """what is symbolic in one exploration.  body: allowed syn::Data variants; style: allowed syn::Fields variants of the struct /
    of each variant; nf / nv: fields / variants (exact or range); cattrs / fattrs / vattrs: attributes on container / each field /
    each variant (ranges); items: items per attribute; names: restrict attribute paths to `darling` (True) or leave them symbolic"""

    def __init__(self, tag, body=("Struct",), style=("Named",), nf=(0, 1), nv=(0, 1), cattrs=(0, 0), fattrs=(0, 0), vattrs=(0, 0), items=(0, 1), only_darling=True,
                 field_names=None, generics=(0, 0), simple=False, item_names=None, where_clause=False):
        self.where_clause = where_clause  # allow a (symbolic, uninspected) where clause on the receiver
        self.item_names = item_names      # restrict the names of first-level attribute items to this list (None: unbounded strings)
        self.simple = simple      # option values restricted to string / bool / int literals and paths (used when several items are symbolic)
        self.tag = tag
        self.body = body
        self.style = style
        self.nf = nf
        self.nv = nv
        self.cattrs = cattrs
        self.fattrs = fattrs
        self.vattrs = vattrs
        self.items = items
        self.only_darling = only_darling
        self.field_names = field_names or FIELD_NAMES
        self.generics = generics


class Pol(syn_models.SynPolicy):
    group_depth = 0

    def __init__(self, focus):
        super().__init__()
        self.f = focus

    def concrete_ident(self, name):
        # identifiers of the item, its fields, variants and type parameters are concrete: they feed ident_case's char loops and the
        # magic-field string matches and are not what the properties quantify over
        m = re.search(r"\.(named|unnamed)\[(\d+)\]\.ident(\.Some\.0)?$", name)
        if m:
            return self.f.field_names[int(m.group(2))]
        m = re.search(r"\.variants\[(\d+)\]\.ident$", name)
        if m:
            return VARIANT_NAMES[int(m.group(1))]
        if name == "di*.ident":
            return "Foo"
        if self.f.only_darling and re.search(r"\.attrs\[\d+\]\.meta\.path\.segments\[0\]\.ident$", name) or (self.f.only_darling and re.search(r"^di\*\.attrs\[\d+\]\.meta\.path\.segments\[0\]\.ident$", name)):
            return "darling"
        m = re.search(r"\.params\[(\d+)\]\.Type\.0\.ident$", name)
        if m:
            return "TU"[int(m.group(1))]
        return None

    def ident_str(self, I, st, name):
        s = self.concrete_ident(name)
        if s is not None:
            return s
        if name.startswith("pq("):
            return syn_models.SynPolicy.ident_str(self, I, st, name)
        if self.f.item_names and TOP_ITEM.search(name):
            from mirsym.core import NeedFork
            key = name + "#word"
            if key in st.decisions:
                return self.f.item_names[st.decisions[key]]
            I.domains.setdefault(key, list(range(len(self.f.item_names))))
            raise NeedFork(key, list(range(len(self.f.item_names))), None)
        if NESTED_WORD.search(name):
            # words inside a nested list (`supports(..)`, `attributes(..)`, `forward_attrs(..)`): a finite alphabet of valid and
            # invalid shape words (they are sliced and compared piecewise by the code, which is hopeless on unconstrained strings)
            from mirsym.core import NeedFork
            key = name + "#word"
            if key in st.decisions:
                return WORDS[st.decisions[key]]
            I.domains.setdefault(key, list(range(len(WORDS))))
            raise NeedFork(key, list(range(len(WORDS))), None)
        return z3.String(name + ".sym")

    def variants(self, I, st, lz, t):
        n = t.adt["name"] if t.adt else ""
        nm = lz.name
        f = self.f
        if n.endswith("error::kind::ErrorKind"):
            return list(range(10))
        if n == "syn::Data" and nm == "di*.data":
            return [i for i, v in enumerate(t.adt["variants"]) if v["name"] in f.body]
        if n == "syn::Fields":
            return [i for i, v in enumerate(t.adt["variants"]) if v["name"] in f.style]
        if f.simple and n == "syn::Expr":
            return [i for i, v in enumerate(t.adt["variants"]) if v["name"] in ("Lit", "Path")]
        if f.simple and n == "syn::Lit":
            return [i for i, v in enumerate(t.adt["variants"]) if v["name"] in ("Str", "Bool", "Int")]
        if n == "syn::Type":
            return [i for i, v in enumerate(t.adt["variants"]) if v["name"] == "Path"]      # field types are plain paths (not the subject)
        if nm.endswith(".qself") or nm.endswith(".lifetimes"):
            return [0]
        if n == "syn::PathArguments":
            return [0]
        if n == "syn::GenericParam":
            return [i for i, v in enumerate(t.adt["variants"]) if v["name"] == "Type"]
        if nm.endswith(".where_clause") and f.where_clause:
            return [0, 1]
        if nm.endswith(".where_clause") or nm.endswith(".discriminant") or nm.endswith(".default") and "params" in nm:
            return [0]
        if ".named[" in nm and nm.endswith("].ident"):
            return [1]
        if ".unnamed[" in nm and nm.endswith("].ident"):
            return [0]
        if nm.endswith(".meta.path.leading_colon") or nm.endswith(".path.leading_colon"):
            return [0]
        if n == "syn::AttrStyle":
            return [0]
        return syn_models.SynPolicy.variants(self, I, st, lz, t)

    def len_bounds(self, I, st, name, t):
        f = self.f
        if name == "di*.attrs":
            return f.cattrs
        if re.search(r"\.variants\[\d+\]\.attrs$", name):
            return f.vattrs
        if name.endswith(".attrs"):
            return f.fattrs
        if name.endswith(".variants"):
            return f.nv
        if name.endswith(".named") or name.endswith(".unnamed"):
            return f.nf
        if name.endswith(".params"):
            return f.generics
        if name.endswith(".segments"):
            return (1, 1)
        if name.endswith(".parsed.Ok.0"):
            return f.items if ".parsed.Ok.0[" not in name else (0, 1)
        if name.endswith(".bounds") or name.endswith(".predicates") or name.endswith(".elems"):
            return (0, 1)
        return (0, 1)

    def str_content(self, I, st, name):
        return None


def load():
    prog = Program(build.dump_mir("hmacro", opts=OPTS))
    natbin = build.build_native("hmacro")
    return prog, natbin


# --------------------------------------------------------------------------------------------------------------- output classification
def classify(tokens):
    """(number of top-level `impl` keywords, [compile_error payloads], other top-level token kinds) of an abstract token list"""
    impls = 0
    errs = []
    for t in tokens:
        if t[0] == "i" and t[1] == "impl":
            impls += 1
        elif t[0] == "ce":
            errs.append(t[1])
    return impls, errs


def outcome(I, l):
    """('panic', msgs) | ('impl', n_impl) | ('errors', [(span, msg)...]) | ('both', ..) | ('nothing',) | ('opaque', repr)"""
    if l.status == "panicked":
        return ("panic", list(l.panics))
    v = l.ret
    toks = syn_models.ts_tokens(v)
    if toks is None:
        return ("opaque", repr(v)[:120])
    impls, errs = classify(toks)
    flat = []
    for e in errs:
        # syn::Error payload: tuple of (span, message) pairs
        for sp, msg in e:
            flat.append((sp, msg))
    if impls and flat:
        return ("both", impls, flat)
    if impls:
        return ("impl", impls)
    if flat:
        return ("errors", flat)
    return ("nothing",)


# --------------------------------------------------------------------------------------------------------------- witness source text
class Src:
    """source text of the symbolic DeriveInput of leaf l"""

    def __init__(self, prog, l, model_fn=None, darling=False, item_names=None):
        self.item_names = item_names
        self.darling = darling        # attribute paths were fixed to `darling` by the policy
        self.l = l
        self.prog = prog
        self.model_fn = model_fn      # () -> z3 model of the leaf's path condition (asked for only when a name is not a known constant)
        self._mdl = None
        self.ref = C13.Ref(prog, l, "expr")
        self.wit = C13.Wit(self.ref, "expr")
        self.wit.model = self._model
        self.k = 0
        self.bad = None

    def d(self, k):
        return self.l.decisions.get(k)

    def _model(self):
        if self._mdl is None and self.model_fn is not None:
            self._mdl = self.model_fn() or False
        return self._mdl or None

    def name_of(self, var, dflt):
        wk = var[:-len(".sym")] + "#word" if var.endswith(".sym") else None
        if wk and wk in self.l.decisions:
            if self.item_names and TOP_ITEM.search(var[:-len(".sym")]):
                return self.item_names[self.l.decisions[wk]]
            return WORDS[self.l.decisions[wk]]
        f = (self.l.extra.get("sfacts") or {}).get(var)
        if f and f != "complex" and f[0] == "eq":
            return f[1]
        if self._mdl is None and self.model_fn is not None:
            self._mdl = self.model_fn() or False
        if self._mdl:
            v = self._mdl.eval(z3.String(var), model_completion=False)
            if z3.is_string_value(v):
                s = v.as_string()
                if re.fullmatch(r"[a-z_][a-z0-9_]{0,20}", s) and s not in ("fn", "as", "if", "in", "do", "for", "let", "mod", "pub", "ref", "use", "mut", "dyn", "impl", "self", "true", "false", "type",
                                                                            "enum", "else", "loop", "move", "crate", "const", "match", "super", "trait", "where", "while", "break", "async", "await"):
                    return s
        self.k += 1
        return "%s%d" % (dflt, self.k)

    def item(self, nb):
        if self.d(nb + "#d") == 1:
            return self.wit.lit(nb + ".Lit.0")
        mb = nb + ".Meta.0"
        nm = self.name_of(mb + ".path.segments[0].ident.sym", "zq")
        f = self.ref.meta_form(mb)
        if isinstance(f, tuple):
            f = [x for x in (0, 1, 2) if x not in f[1]][0]
        if f in (0, None):
            return nm
        if f == 1:
            lst = mb + ".List.0.tokens.parsed"
            if self.d(lst + "#d") == 1:
                return nm + "(=)"
            n = self.d(lst + ".Ok.0#len") or 0
            return "%s(%s)" % (nm, ", ".join(self.item("%s.Ok.0[%d]" % (lst, i)) for i in range(n)))
        return "%s = %s" % (nm, self.wit.expr(mb + ".NameValue.0.value"))

    def attrs(self, at):
        n = self.d(at + "#len") or 0
        out = []
        for j in range(n):
            ab = "%s[%d]" % (at, j)
            nm = "darling" if self.darling else self.name_of(ab + ".meta.path.segments[0].ident.sym", "zattr")
            f = self.d(ab + ".meta#d")
            if f in (0, None):
                out.append("#[%s]" % nm)
            elif f == 2:
                out.append("#[%s = %s]" % (nm, self.wit.expr(ab + ".meta.NameValue.0.value")))
            else:
                lst = ab + ".meta.List.0.tokens.parsed"
                if self.d(lst + "#d") == 1:
                    out.append("#[%s(=)]" % nm)
                else:
                    m = self.d(lst + ".Ok.0#len") or 0
                    out.append("#[%s(%s)]" % (nm, ", ".join(self.item("%s.Ok.0[%d]" % (lst, i)) for i in range(m))))
        return " ".join(out) + (" " if out else "")

    def fields(self, fb, names):
        d = self.d(fb + "#d")
        if d is None or d == 2:
            return ""
        lst = fb + (".Named.0.named" if d == 0 else ".Unnamed.0.unnamed")
        n = self.d(lst + "#len") or 0
        parts = []
        for i in range(n):
            a = self.attrs("%s[%d].attrs" % (lst, i))
            tf = (self.l.extra.get("sfacts") or {}).get("%s[%d].ty.Path.0.path.segments[0].ident.sym" % (lst, i))
            ty = tf[1] if (tf and tf != "complex" and tf[0] == "eq" and tf[1] in ("T", "U")) else "u8"      # a type parameter the path compared with, else a plain type
            parts.append("%s%s: %s" % (a, names[i], ty) if d == 0 else "%s%s" % (a, ty))
        return " { %s }" % ", ".join(parts) if d == 0 else "(%s)" % ", ".join(parts)

    def item_source(self, field_names):
        l = self.l
        a = self.attrs("di*.attrs")
        ng = self.d("di*.generics.params#len") or 0
        gen = "<%s>" % ", ".join("TU"[i] for i in range(ng)) if ng else ""
        dk = self.d("di*.data#d")
        if dk == 0 or dk is None:
            fs = self.fields("di*.data.Struct.0.fields", field_names)
            return "%sstruct Foo%s%s%s" % (a, gen, fs, "" if fs.startswith(" {") else ";")
        if dk == 1:
            n = self.d("di*.data.Enum.0.variants#len") or 0
            vs = []
            for i in range(n):
                vb = "di*.data.Enum.0.variants[%d]" % i
                vs.append("%s%s%s" % (self.attrs(vb + ".attrs"), VARIANT_NAMES[i], self.fields(vb + ".fields", field_names)))
            return "%senum Foo%s { %s }" % (a, gen, ", ".join(vs))
        return "%sunion Foo%s { field_a: u8 }" % (a, gen)

    @property
    def unrealisable(self):
        return self.bad or self.wit.bad


def explore(ck, prog, derive, focus):
    I = Interp(prog, models.all_models(OPTS), Pol(focus), timeout_ms=ck.timeout_ms)
    e = prog.entry("entry_%s" % derive)
    leaves = I.explore(e, [Lazy("di", e.local_tys[1])])
    ck.absorb(I, leaves, "entry_%s[%s]" % (derive, focus.tag))
    ck.check_exhaustive(I, leaves, "%s:%s" % (derive, focus.tag))
    return I, e, leaves
