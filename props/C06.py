"""C06 - the derive macros are total: they diagnose, they never crash.

The six `darling_core::derive::*` functions are executed from MIR on a symbolic `DeriveInput` (see derive_common).  Per leaf:
no panic (a panic leaf is replayed natively before it is reported), and the returned token stream contains either exactly one
`impl` item or one or more `compile_error!` diagnostics, never both and never nothing.  The token stream is the abstract token list
built by the modelled quote! runtime; well-formedness of the emitted impl beyond "one impl keyword at top level" is C20's subject."""
import os
import sys

sys.path.insert(0, os.path.dirname(os.path.dirname(os.path.abspath(__file__))))
from vlib.prop import Check, Native, sx_str
from props import derive_common as D
from props.derive_common import Focus


def focuses(quick):
    fs = [
        # every body shape without attributes: unit / named / tuple (0..2 fields), enums of 0..2 variants of every style, unions
        Focus("shapes-struct", body=("Struct",), style=("Named", "Unnamed", "Unit"), nf=(0, 2)),
        Focus("shapes-enum", body=("Enum",), style=("Named", "Unnamed", "Unit"), nf=(0, 2), nv=(0, 2)),
        Focus("union", body=("Union",)),
        # one attribute of any name and form with 0..1 item of any name, form and value, on each position
        Focus("container-attr", body=("Struct",), style=("Named",), nf=(1, 1), cattrs=(0, 1), items=(0, 1), only_darling=False),
        Focus("container-attr-enum", body=("Enum",), style=("Unit",), nv=(1, 1), cattrs=(1, 1), items=(0, 1)),
        Focus("field-attr", body=("Struct",), style=("Named",), nf=(1, 1), fattrs=(0, 1), items=(0, 1), only_darling=False),
        Focus("tuple-field-attr", body=("Struct",), style=("Unnamed",), nf=(1, 1), fattrs=(1, 1), items=(0, 1)),
        Focus("variant-attr", body=("Enum",), style=("Unit", "Unnamed", "Named"), nf=(0, 1), nv=(1, 1), vattrs=(0, 1), items=(0, 1), only_darling=False),
        Focus("variant-field-attr", body=("Enum",), style=("Named",), nf=(1, 1), nv=(1, 1), fattrs=(1, 1), items=(0, 1)),
        # two items in one attribute (simple value forms): conflicts, duplicates
        Focus("container-2items", body=("Struct",), style=("Named",), nf=(1, 1), cattrs=(1, 1), items=(2, 2), simple=True),
        Focus("field-2items", body=("Struct",), style=("Named",), nf=(1, 1), fattrs=(1, 1), items=(2, 2), simple=True),
        Focus("variant-2items", body=("Enum",), style=("Unit",), nv=(1, 1), vattrs=(1, 1), items=(2, 2), simple=True),
    ]
    if not quick:
        fs += [
            Focus("two-field-attrs", body=("Struct",), style=("Named",), nf=(2, 2), fattrs=(0, 1), items=(0, 1), simple=True),
            Focus("two-variant-attrs", body=("Enum",), style=("Unit",), nv=(2, 2), vattrs=(0, 1), items=(0, 1), simple=True),
            Focus("two-container-attrs", body=("Struct",), style=("Named",), nf=(1, 1), cattrs=(2, 2), items=(0, 1), simple=True),
            Focus("generic", body=("Struct",), style=("Named",), nf=(1, 2), generics=(1, 2)),
        ]
    return fs


# magic field names per derive, so that the element-level derives meet their forwarded fields
MAGIC = {"from_derive_input": ["ident", "attrs", "data"], "from_field": ["ident", "ty", "attrs"], "from_variant": ["ident", "fields", "discriminant"],
         "from_type_param": ["ident", "bounds", "default"], "from_attributes": ["field_a", "attrs", "field_c"], "from_meta": ["field_a", "field_b", "field_c"]}


def job(ck, prog, natbin, derive, focus, quick):
    native = Native(natbin)
    I, e, leaves = D.explore(ck, prog, derive, focus)
    cnt = 0
    for l in leaves:
        out = D.outcome(I, l)
        if l.status not in ("returned", "panicked"):
            ck.obligations += 1
            ck.engine("%s[%s]: leaf %s %s" % (derive, focus.tag, l.status, str(l.info)[:300]))
            continue
        src = D.Src(prog, l, lambda l=l: ck.model_of(l.pc), darling=focus.only_darling)
        text = src.item_source(focus.field_names)
        req = "(derive %s %s)" % (derive, sx_str(text))
        ck.reach(out[0])
        cnt += 1
        if out[0] == "panic":
            ck.obligations += 1
            nat = native.ask(req)
            key = "%s:%s:panic:%s" % (derive, focus.tag, str(out[1][0])[:40])
            if isinstance(nat, dict) and "panic" in nat:
                ck.report(key, "the derive panics instead of emitting a diagnostic (%s)" % str(out[1])[:160],
                          {"property": ck.pid, "crate": "hmacro", "request": req, "observed": nat, "panics": out[1]})
            elif src.unrealisable:
                ck.engine("%s[%s]: symbolic panic %r, witness not realisable (%s)" % (derive, focus.tag, out[1], src.unrealisable))
            else:
                ck.engine("%s[%s]: symbolic panic %r not reproduced natively (%s -> %s)" % (derive, focus.tag, out[1], req, str(nat)[:160]))
            continue
        good = out[0] in ("impl", "errors") and (out[0] != "impl" or out[1] == 1)
        if good:
            ck.ok()
            if src.unrealisable or cnt % (4 if quick else 8):
                continue
        else:
            ck.obligations += 1
        nat = native.ask(req)
        r = nat.get("result", {}) if isinstance(nat, dict) else {}
        if isinstance(r, dict) and "parse_error" in r:
            if not good:
                ck.engine("%s[%s]: output shape %r, witness not parseable (%s)" % (derive, focus.tag, out[:2], req))
            continue
        if isinstance(nat, dict) and "panic" in nat:
            ck.report("%s:%s:native-panic" % (derive, focus.tag), "the derive panics natively on a witness of a non-panicking symbolic path", {"property": ck.pid, "crate": "hmacro", "request": req, "observed": nat})
            continue
        n_impl, n_err = r.get("impls"), len(r.get("errors", []))
        native_good = (n_impl == 1 and n_err == 0) or (n_impl == 0 and n_err >= 1)
        agree = native_good and ((out[0] == "impl") == (n_impl == 1)) if good else not native_good
        if good and agree:
            ck.native_agree += 1
            if len(ck.samples) < 8 and out[0] == "errors":
                ck.sample({"derive": derive, "source": text, "native": r})
        elif good:
            ck.report("%s:%s:native:%s" % (derive, focus.tag, out[0]), "native output differs from the symbolic outcome", {"property": ck.pid, "crate": "hmacro", "request": req, "symbolic": repr(out)[:300], "observed": nat})
        elif native_good:
            ck.engine("%s[%s]: symbolic output shape %r but the native output is well-formed (%s)" % (derive, focus.tag, out[:2], req))
        else:
            ck.report("%s:%s:shape:%s" % (derive, focus.tag, out[0]), "the derive's output is neither one impl block nor diagnostics only: %r" % (out[:2],),
                      {"property": ck.pid, "crate": "hmacro", "request": req, "observed": nat})
    native.close()


def prepare(ck):
    ck.crate = "hmacro"
    quick = ck.tier == "quick"
    prog, natbin = D.load()
    only = os.environ.get("VERIF_DERIVES")
    derives = only.split(",") if only else D.DERIVES
    jobs = []
    fs = focuses(quick)
    for dv in derives:
        ck.programs.add("darling_core::derive::%s" % dv)
        for f in fs:
            f2 = Focus(f.tag, f.body, f.style, f.nf, f.nv, f.cattrs, f.fattrs, f.vattrs, f.items, f.only_darling, MAGIC[dv], f.generics, f.simple)
            jobs.append(lambda sub, dv=dv, f2=f2: job(sub, prog, natbin, dv, f2, quick))
    ck.bounds = {"derives": derives, "explorations": [f.tag for f in fs], "attributes": "0..1 per position (two in thorough), symbolic path / form / body",
                 "items_per_attribute": "0..2 (0..1 nested), symbolic name, form and value (all expression forms, all literal kinds)",
                 "identifiers": "concrete (Foo, field_a.., VariantA.., T, U; the magic member names per derive)", "field types": "plain paths"}
    ck.outside = ["token-level well-formedness of the emitted impl (C20)", "attributes on several positions at once beyond the listed explorations",
                  "generic parameters other than plain type parameters; where clauses", "field types other than plain paths"]
    ck.assumptions = ["quote!'s runtime (push_*, append, extend) appends abstract tokens; parse_quote! of literal tokens yields the path it spells",
                      "token parsing of attribute bodies is an uninterpreted outcome", "syn::Error::to_compile_error yields one compile_error! item per message"]
    return jobs


def main():
    ck = Check("C06")
    ck.run_jobs(prepare(ck))
    ck.require_reached(["impl", "errors"])
    ck.finish()


if __name__ == "__main__":
    main()
