"""C17 - did-you-mean suggestions are sound, best-match and scoped to the level.

The real `did_you_mean`, `ErrorUnknownField::{with_alts, add_alts}`, `Error::add_sibling_alts_for_unknown_field` and the
generated unknown-name branches run symbolically with `strsim::jaro_winkler` as an uninterpreted function into [0, 1];
every leaf's suggestion is compared (z3, floating point) with "the first best candidate above 0.8 among the names accepted
at that position".  A second build without the `suggestions` feature must never suggest."""
import os
import sys
import z3

sys.path.insert(0, os.path.dirname(os.path.dirname(os.path.abspath(__file__))))
from vlib import build
from vlib.prop import Check, Native, sx_str
from vlib.view import view, L
from mirsym import Program, Interp, models, Lazy, Opaque, syn_models, harness_models  # noqa: F401
from mirsym.models import tosym
from props import recv_spec as S
from props.recv_common import Pol, list_items

STRUCT_RECEIVERS = ["S1", "S2", "S3", "S5", "S14", "S9"]
ENUM_RECEIVERS = ["E1", "E2", "E5"]
from fractions import Fraction
THRESH = z3.RealVal(str(Fraction(0.8)))


def jw(name_term, cand):
    return z3.Real("jw(%s,%s)" % (tosym(name_term).sexpr(), z3.StringVal(cand).sexpr()))


def accepted_names(r):
    return [S.eff_name(r, f) for f in r["fields"] if S.eff_name(r, f)]


def unknown_leaves(v, st, prefix=()):
    """(name term, locations, suggestion (score, alt) | None | 'lazy') for every unknown-field leaf of a viewed flat error list / tree"""
    out = []
    if isinstance(v, L):
        return out
    if isinstance(v, list):
        for x in v:
            out.extend(unknown_leaves(x, st, prefix))
        return out
    k = v["kind"]
    if isinstance(k, L):
        return out
    locs = v["locations"]
    nl = 0 if isinstance(locs, L) and st.decisions.get(locs.name + "#len", 0) == 0 else (len(locs) if isinstance(locs, list) else 1)
    if k["_v"] == "Multiple":
        items = k["0"]
        if isinstance(items, list):
            for c in items:
                out.extend(unknown_leaves(c, st, prefix + (nl,)))
        return out
    if k["_v"] == "UnknownField":
        inner = k["0"]
        nm = inner["name"]
        nm = z3.String(nm.name) if isinstance(nm, L) else nm
        dym = inner["did_you_mean"]
        if isinstance(dym, L):
            sug = "lazy"
        elif dym.get("_v") == "None":
            sug = None
        else:
            sc, alt = dym["0"]
            sug = (sc, alt)
        out.append((nm, nl + sum(prefix), sug))
    return out


def others(v, st):
    """suggestions attached to anything that is not an unknown-name error (there must be none: only that kind has the field)"""
    return []


def check_suggestion(ck, l, name_term, cands, sug, where):
    """cands: ordered candidate names valid at the position"""
    if sug == "lazy":
        return None, "suggestion never computed"
    scores = [jw(name_term, c) for c in cands]
    if sug is None:
        if not cands:
            return True, ""
        claim = z3.And([z3.Not(s > THRESH) for s in scores])
        okv, _ = ck.smt_valid(l.pc, claim)
        return bool(okv), "no suggestion although a candidate is similar enough"
    sc, alt = sug
    alt = alt if isinstance(alt, str) else (z3.simplify(alt).as_string() if z3.is_string_value(z3.simplify(alt)) else None)
    if alt not in cands:
        return False, "suggested `%s`, which is not accepted at this position (accepted: %r)" % (alt, cands)
    k = cands.index(alt)
    cl = [scores[k] > THRESH]
    for j, s in enumerate(scores):
        if j < k:
            cl.append(s < scores[k])      # an earlier candidate with the same score would have won
        elif j > k:
            cl.append(s <= scores[k])
    if z3.is_expr(sc):
        cl.append(sc == scores[k])
    okv, _ = ck.smt_valid(l.pc, z3.And(cl))
    return bool(okv), "suggested `%s` is not the first best candidate above the threshold" % alt


def nested_candidates(r, l, nm):
    """names accepted by the nested receiver that rejected the name term nm (located through the term's input position)"""
    if not (z3.is_expr(nm) and z3.is_const(nm)):
        return None
    var = nm.decl().name()
    marker = ".Meta.0.List.0.tokens.parsed.Ok.0["
    parts = var.split(marker)
    cur = r
    prefix = parts[0]            # items*[i
    facts = l.extra.get("sfacts") or {}
    for depth in range(len(parts) - 1):
        item = prefix + ("]" if not prefix.endswith("]") else "")
        item = prefix.split("]")[0] + "]" if depth == 0 else item
        namevar = item + ".Meta.0.path.segments[0].ident.sym"
        f = facts.get(namevar)
        if not f or f == "complex" or f[0] != "eq":
            return None
        fld = [g for g in cur["fields"] if S.eff_name(cur, g) == f[1]]
        if not fld:
            return None
        ty = fld[0]["ty"]
        if ty.startswith("Option<"):
            ty = ty[7:-1]
        cur = S.BY_NAME.get(ty)
        if cur is None:
            return None
        prefix = item + marker + parts[depth + 1].split("]")[0]
    names = accepted_names(cur)
    fl = [g for g in cur["fields"] if g["flatten"]]
    if fl:
        names = accepted_names(S.BY_NAME[fl[0]["ty"]]) + names
    return names


def struct_job(ck, prog, natbin, rname, quick, feature_on):
    r = S.BY_NAME[rname]
    K = 1 if (quick or rname == "S9") else 2
    I = Interp(prog, models.all_models(()), Pol(K, 1), timeout_ms=ck.timeout_ms)
    e = prog.entry("entry_%s_flat" % rname)
    leaves = I.explore(e, [Lazy("items", e.local_tys[1])])
    tag = "entry_%s_flat%s" % (rname, "" if feature_on else "[no suggestions]")
    ck.absorb(I, leaves, tag)
    ck.check_exhaustive(I, leaves, tag)
    flat = [f for f in r["fields"] if f["flatten"]]
    if feature_on:
        native_probes(ck, natbin, rname, accepted_names(r))
    for l in leaves:
        if l.status != "returned":
            ck.obligations += 1
            ck.engine("%s: leaf %s %s" % (tag, l.status, l.info or l.panics))
            continue
        got = view(I, l, l.ret, e.local_tys[0])
        if not (isinstance(got, dict) and got.get("_v") == "Err"):
            continue
        uls = unknown_leaves(got["0"], l)
        for nm, nlocs, sug in uls:
            if not feature_on:
                ck.reach("off:unknown")
                if sug is None:
                    ck.ok()
                else:
                    ck.obligations += 1
                    ck.report("%s:feature-off" % rname, "a suggestion is attached although the `suggestions` feature is disabled",
                              {"property": "C17", "receiver": rname, "symbolic": repr(sug)})
                continue
            # which level rejected the name?
            nms = z3.simplify(nm).sexpr() if z3.is_expr(nm) else repr(nm)
            if nlocs == 0:
                if flat:
                    sub = S.BY_NAME[flat[0]["ty"]]
                    cands = accepted_names(sub) + accepted_names(r)     # the flatten member received it directly: parent names are offered too
                else:
                    cands = accepted_names(r)
            else:
                # rejected deeper inside a nested member: only that receiver's own names
                cands = nested_candidates(r, l, nm)
                if cands is None:
                    ck.engine("%s: cannot attribute unknown-name error %s (depth %d)" % (rname, nms, nlocs))
                    continue
            ck.reach("suggest" if sug not in (None, "lazy") else "nosuggest")
            okv, why = check_suggestion(ck, l, nm, cands, sug, rname)
            if okv is None:
                ck.engine("%s: %s" % (rname, why))
            elif not okv:
                ck.report("%s:%s" % (rname, why.split(",")[0][:50]), why,
                          {"property": "C17", "receiver": rname, "candidates": cands, "symbolic": repr(sug), "name": nms,
                           "request": "(from_list %s \"zq\")" % rname})


def native_probes(ck, natbin, rname, names):
    """a one-character typo of a long accepted name is answered with that name natively"""
    native = Native(natbin)
    for nm in names:
        if len(nm) < 5:
            continue
        nat = native.ask("(from_list %s %s)" % (rname, sx_str(nm[:-1])))
        if "Did you mean `%s`" % nm in str(nat):
            ck.native_agree += 1
        else:
            ck.report("%s:native-suggestion" % rname, "native run does not suggest `%s` for `%s`" % (nm, nm[:-1]),
                      {"property": "C17", "request": "(from_list %s %s)" % (rname, sx_str(nm[:-1])), "observed": nat})
    native.close()


def enum_job(ck, prog, natbin, ename, quick, feature_on):
    en = S.ENUM_BY_NAME[ename]
    if feature_on:
        native_probes(ck, natbin, ename, [S.variant_name(en, v) for v in en["variants"] if not v["skip"] and v["kind"] == "unit"])
    I = Interp(prog, models.all_models(()), Pol(1, 1), timeout_ms=ck.timeout_ms)
    e = prog.entry("entry_%s_list_flat" % ename)
    leaves = I.explore(e, [Lazy("items", e.local_tys[1])])
    tag = "entry_%s_list_flat%s" % (ename, "" if feature_on else "[no suggestions]")
    ck.absorb(I, leaves, tag)
    ck.check_exhaustive(I, leaves, tag)
    valid = [S.variant_name(en, v) for v in en["variants"] if not v["skip"]]
    for l in leaves:
        if l.status != "returned":
            ck.obligations += 1
            ck.engine("%s: leaf %s %s" % (tag, l.status, l.info or l.panics))
            continue
        got = view(I, l, l.ret, e.local_tys[0])
        if not (isinstance(got, dict) and got.get("_v") == "Err"):
            continue
        for nm, nlocs, sug in unknown_leaves(got["0"], l):
            if not feature_on:
                if sug is None:
                    ck.ok()
                    ck.reach("off:unknown")
                else:
                    ck.obligations += 1
                    ck.report("%s:feature-off" % ename, "suggestion with the feature disabled", {"property": "C17", "receiver": ename, "symbolic": repr(sug)})
                continue
            if nlocs == 0:
                cands = valid
            else:
                cands = None
                nms = z3.simplify(nm).sexpr()
                for v in en["variants"]:
                    if v["kind"] == "struct" and not v["skip"]:
                        cands = [S.apply_rule(en["rename_all"], f["name"]) if not f["rename"] else f["rename"] for f in v["fields"] if not f["skip"] and not f["flatten"]]
                if cands is None:
                    ck.engine("%s: cannot attribute nested unknown-name error" % ename)
                    continue
                # several struct variants: take the one whose name the item carries
                it = list_items(l, "items*")[0]
                facts = (l.extra.get("sfacts") or {}).get(it.namevar.decl().name()) if it.kind == "meta" else None
                if facts and facts != "complex" and facts[0] == "eq":
                    for v in en["variants"]:
                        if S.variant_name(en, v) == facts[1] and v["kind"] == "struct":
                            cands = [S.apply_rule(en["rename_all"], f["name"]) if not f["rename"] else f["rename"] for f in v["fields"] if not f["skip"] and not f["flatten"]]
            ck.reach("suggest" if sug not in (None, "lazy") else "nosuggest")
            okv, why = check_suggestion(ck, l, nm, cands, sug, ename)
            if okv is None:
                ck.engine("%s: %s" % (ename, why))
            elif not okv:
                # replay natively with a name that is close to the offending suggestion
                alt = sug[1] if isinstance(sug, tuple) else None
                alt = alt if isinstance(alt, str) else (z3.simplify(alt).as_string() if alt is not None and z3.is_string_value(z3.simplify(alt)) else None)
                native = Native(natbin)
                nat = None
                req = None
                if alt is not None and nlocs == 0:
                    probe = alt[:-1] if len(alt) > 3 else alt + "x"
                    req = "(from_list %s %s)" % (ename, sx_str(probe))
                    nat = native.ask(req)
                native.close()
                confirmed = nat is not None and "Did you mean `%s`" % alt in str(nat) and alt not in cands
                if confirmed or alt is None or alt in cands:
                    ck.report("%s:%s" % (ename, why.split(",")[0][:50]), why,
                              {"property": "C17", "receiver": ename, "candidates": cands, "symbolic": repr(sug), "request": req, "observed": nat})
                else:
                    ck.engine("%s: %s - not reproduced natively (%s -> %s)" % (ename, why, req, nat))


def main():
    ck = Check("C17")
    ck.crate = "hrecv"
    quick = ck.tier == "quick"
    ck.bounds = {"struct_receivers": STRUCT_RECEIVERS, "enum_receivers": ENUM_RECEIVERS, "unknown_items": "1 per list (2 in thorough), nested lists 0..1",
                 "similarity": "uninterpreted function into [0,1] (not NaN)", "feature": "suggestions on and off (two builds)"}
    ck.outside = ["the Jaro-Winkler metric itself (strsim)", "receivers outside the generated family", "flatten chains deeper than 2"]
    ck.assumptions = ["jaro_winkler is a pure function of its two arguments with values in [0,1]"]
    jobs = []
    prog_on = Program(build.dump_mir("hrecv", opts=()))
    natbin = build.build_native("hrecv")
    for rn in STRUCT_RECEIVERS:
        ck.programs.add("hrecv::%s" % rn)
        jobs.append(lambda sub, rn=rn: struct_job(sub, prog_on, natbin, rn, quick, True))
    for en in ENUM_RECEIVERS:
        ck.programs.add("hrecv::%s" % en)
        jobs.append(lambda sub, en=en: enum_job(sub, prog_on, natbin, en, quick, True))
    prog_off = Program(build.dump_mir("hrecv", opts=(), features=[]))
    for rn in ["S1", "S5"]:
        jobs.append(lambda sub, rn=rn: struct_job(sub, prog_off, natbin, rn, quick, False))
    jobs.append(lambda sub: enum_job(sub, prog_off, natbin, "E1", quick, False))
    ck.run_jobs(jobs)
    ck.require_reached(["suggest", "nosuggest", "off:unknown"])
    ck.finish()


if __name__ == "__main__":
    main()
