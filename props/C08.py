"""C08 - attribute selection, merging across attributes, and forwarding.

Derive-generated from_derive_input / from_attributes / from_field / from_type_param of element-level receivers are executed on a
lazily initialised symbolic element whose attribute vector (0..M attributes with symbolic names, forms and bodies) is symbolic.
The reference model concatenates the items of the selected attributes and applies C01/C02's struct model to that single list -
so every way of splitting the same items over attributes is compared with the same expectation."""
import os
import sys
import z3

sys.path.insert(0, os.path.dirname(os.path.dirname(os.path.abspath(__file__))))
from vlib import build
from vlib.prop import Check, Native, sx_str
from vlib.view import view, L
from mirsym import Program, Interp, models, Lazy, Opaque, syn_models, harness_models  # noqa: F401
from props import recv_spec as S
from props.recv_common import (Oracle, E, Item, list_items, flat_errors, match_errors, value_eqs, Text, render_items, ident_validity,
                               native_value, model_str, OPTS, replay_panic)
from props.C12 import rep

# non-magic fields of the element-level receivers in harness/hderive
SPECS = {
    "D0": dict(r=S.R("D0", [S.F("a", ty="Option<Opq>")]), names=["my"], fwd=None, attrs_at="x*.attrs", wrap="struct Foo;"),
    "D1": dict(r=S.R("D1", [S.F("a"), S.F("b", default="Default")]), names=["my"], fwd=["doc", "allow"], attrs_at="x*.attrs", wrap="struct Foo;"),
    "D2": dict(r=S.R("D2", [S.F("a", ty="Option<Opq>"), S.F("m", ty="Vec<Opq>", multiple=True)]), names=["my", "other"], fwd="all", attrs_at="x*.attrs",
               wrap="struct Foo;"),
    "D3": dict(r=S.R("D3", [S.F("a", ty="Option<Opq>")]), names=["my", "other"], fwd=["other", "doc"], attrs_at="x*.attrs", wrap="struct Foo;"),
    "A1": dict(r=S.R("A1", [S.F("a"), S.F("b", default="Default")]), names=["my"], fwd=None, attrs_at="x*", wrap="struct Foo;"),
    "F1": dict(r=S.R("F1", [S.F("a", ty="Option<Opq>", default="Default")]), names=["my"], fwd=["doc"], attrs_at="x*.attrs", wrap=None),
    "T1": dict(r=S.R("T1", [S.F("a", ty="Option<Opq>", default="Default")]), names=["my"], fwd=None, attrs_at="x*.attrs", wrap=None),
}


class Pol(syn_models.SynPolicy):
    def __init__(self, M, K, colon):
        super().__init__()
        self.M = M
        self.K = K
        self.colon = colon

    def variants(self, I, st, lz, t):
        if t.adt and t.adt["name"].endswith("error::kind::ErrorKind"):
            return list(range(10))
        if not self.colon and lz.name.endswith(".meta.path.leading_colon"):
            return [0]
        return syn_models.SynPolicy.variants(self, I, st, lz, t)

    def len_bounds(self, I, st, name, t):
        if name.endswith(".attrs") or name == "x*":
            return (0, self.M)
        if name.endswith(".meta.path.segments"):
            return (1, 2)      # `#[my(..)]` and `#[tool::my(..)]`: a qualified path never equals a listed name
        if name.endswith(".segments"):
            return (1, 1)
        if name.endswith(".parsed.Ok.0"):
            return (0, self.K)
        if name.endswith(".locations"):
            return (0, 0)
        return (0, 1)


def attr_class(ck, l, base, names, fwd):
    """(selected name | None, forwarded?) of attribute `base` on leaf l; None,None if not uniform"""
    lead = l.decisions.get(base + ".meta.path.leading_colon#d")
    var = base + ".meta.path.segments[0].ident.sym"
    f = (l.extra.get("sfacts") or {}).get(var)
    name = f[1] if (f and f != "complex" and f[0] == "eq") else None
    if lead == 1 or l.decisions.get(base + ".meta.path.segments#len", 1) != 1:
        name = None      # `:: name` and `tool :: name` never equal a plain attribute name
    sel = name if name in names else None
    if fwd == "all":
        forwarded = sel is None
    elif fwd:
        forwarded = sel is None and name in fwd      # a selected attribute is consumed, never forwarded ("the non-consumed forwarded attributes")
    else:
        forwarded = False
    return sel, forwarded, name


def merged_items(ck, l, at, spec):
    """the selected attributes of the vector `at` merged into one item list.
    returns (items, per-attribute errors, forwarded attribute origins, shape) or None if the leaf leaves a needed part open"""
    m = l.decisions.get(at + "#len", 0)
    items = []
    errs = []
    fwd_expected = []
    undecided = False
    shape = []
    for j in range(m):
        base = "%s[%d]" % (at, j)
        sel, forwarded, name = attr_class(ck, l, base, spec["names"], spec["fwd"])
        if forwarded:
            fwd_expected.append(base)
        if sel is None:
            shape.append(("other", name, base))
            continue
        form = l.decisions.get(base + ".meta#d")
        if form is None:
            undecided = True
            break
        if form == 0:
            shape.append(("bare", sel, base))
            continue
        if form == 2:
            errs.append(E("custom", None, span=("node", base + ".meta.NameValue.0")))   # "Name-value arguments are not supported. Use #[name(...)]"
            shape.append(("nv", sel, base))
            continue
        pd = l.decisions.get(base + ".meta.List.0.tokens.parsed#d")
        if pd is None:
            undecided = True
            break
        if pd == 1:
            errs.append(E("syn", base + ".meta.List.0.tokens.parsed.Err.0", own_span=("in", base + ".meta.List.0.tokens.parsed.Err.0.span")))
            shape.append(("badlist", sel, base))
            continue
        sub = list_items(l, base + ".meta.List.0.tokens.parsed.Ok.0")
        if sub is None:
            undecided = True
            break
        items.extend(sub)
        shape.append(("list", sel, base))
    if undecided:
        return None
    return items, errs, fwd_expected, shape


def witness_src(ck, l, spec, rn, shape, uniq):
    """source text of an element carrying the attributes described by `shape`"""
    mdl = ck.model_of(list(l.pc) + ident_validity(l)) or ck.model_of(l.pc)
    parts = []
    for sk, name, base in shape:
        lead = "::" if l.decisions.get(base + ".meta.path.leading_colon#d") == 1 else ""
        if name is None:
            nseg = l.decisions.get(base + ".meta.path.segments#len", 1)
            segs = []
            for j in range(nseg):
                uniq[0] += 1
                segs.append(model_str(mdl, z3.String("%s.meta.path.segments[%d].ident.sym" % (base, j)), "zq%d" % uniq[0]))
            name = "::".join(segs)
            if nseg > 1:
                ck.reach("qualified")
            if name in spec["names"] and not lead:
                name = "zq%d" % uniq[0]
        form = l.decisions.get(base + ".meta#d")
        if sk in ("other",):
            body = {0: "", 2: ' = "v"', 1: "(a, =)", None: "(anything goes)"}[form] if name != "doc" else ' = "d"'
            parts.append("#[%s%s%s]" % (lead, name, body))
        elif sk == "bare":
            parts.append("#[%s]" % name)
        elif sk == "nv":
            parts.append('#[%s = "v"]' % name)
        elif sk == "badlist":
            parts.append("#[%s(=)]" % name)
        else:
            t = Text()
            render_items(l, mdl, base + ".meta.List.0.tokens.parsed.Ok.0", t, uniq)
            parts.append("#[%s(%s)]" % (name, t.s))
    src = " ".join(parts) + " " + (spec["wrap"] or "")
    if spec["wrap"] is None:
        src = "struct Foo<%s T> { %s f: u8 }" % (" ".join(parts) if rn == "T1" else "", " ".join(parts) if rn == "F1" else "")
    return src, mdl


def loose_shape(l, at, spec, open_as="bare"):
    """shape of the attribute vector for a witness when some forms were never decided (panic leaves)"""
    shape = []
    for j in range(l.decisions.get(at + "#len", 0)):
        base = "%s[%d]" % (at, j)
        sel, forwarded, name = attr_class(None, l, base, spec["names"], spec["fwd"])
        if sel is None:
            shape.append(("other", name, base))
            continue
        form = l.decisions.get(base + ".meta#d")
        if form is None:
            shape.append((open_as, sel, base))
        elif form == 0:
            shape.append(("bare", sel, base))
        elif form == 2:
            shape.append(("nv", sel, base))
        elif l.decisions.get(base + ".meta.List.0.tokens.parsed#d") == 1:
            shape.append(("badlist", sel, base))
        else:
            shape.append(("list", sel, base))
    return shape


def job(ck, prog, natbin, rn, M, K, colon, quick):
    spec = SPECS[rn]
    r = spec["r"]
    native = Native(natbin)
    I = Interp(prog, models.all_models(OPTS), Pol(M, K, colon), timeout_ms=ck.timeout_ms)
    e = prog.entry("entry_%s" % rn)
    leaves = I.explore(e, [Lazy("x", e.local_tys[1])])
    ck.absorb(I, leaves, "entry_%s" % rn)
    ck.check_exhaustive(I, leaves, rn)
    at = spec["attrs_at"]
    uniq = [0]
    cnt = 0
    for l in leaves:
        if l.status == "panicked":
            psrc = witness_src(ck, l, spec, rn, loose_shape(l, at, spec), uniq)[0]
            replay_panic(ck, native, rn, l, "(di %s %s)" % (rn, sx_str(psrc)), {"crate": "hderive"})
            continue
        if l.status != "returned":
            ck.obligations += 1
            ck.engine("%s: leaf %s %s" % (rn, l.status, l.info or l.panics))
            continue
        mi = merged_items(ck, l, at, spec)
        if mi is None:
            # the path never looks at the form of an attribute it must select, i.e. it treats `#[name]`, `#[name(..)]` and `#[name = ..]`
            # alike although the last one is an error: complete the attribute as name-value and replay against the real build
            ck.obligations += 1
            opened = [s_ for s_ in loose_shape(l, at, spec, "OPEN") if s_[0] == "OPEN"]
            if not opened:
                ck.engine("%s: leaf leaves a selected attribute's body open (%r)" % (rn, l.decisions))
                continue
            psrc = witness_src(ck, l, spec, rn, loose_shape(l, at, spec, "nv"), uniq)[0]
            req = "(di %s %s)" % (rn, sx_str(psrc))
            nat = native.ask(req)
            res_ = nat.get("result") if isinstance(nat, dict) else None
            if isinstance(res_, dict) and "err" in res_:
                ck.engine("%s: leaf leaves a selected attribute's form open, yet the native run rejects the name-value completion (%s)" % (rn, req))
            elif isinstance(res_, dict) and "ok" in res_:
                ck.report("%s:selected-attribute-never-inspected" % rn, "a selected attribute (%s) is never looked at: its name-value form, an error, is accepted and its items are lost"
                          % ", ".join(str(s_[1]) for s_ in opened), {"property": "C08", "crate": "hderive", "request": req, "observed": nat})
            else:
                ck.engine("%s: leaf leaves a selected attribute's form open; the completion could not be replayed (%s -> %s)" % (rn, req, str(nat)[:160]))
            continue
        items, errs, fwd_expected, shape = mi
        orc = Oracle(ck, l)
        kind, val = orc.expect_struct(r, items)
        if kind in ("none", "unsupported") or orc.undetermined:
            ck.engine("%s: oracle could not classify the merged item list (%s)" % (rn, kind))
            continue
        if kind == "ok" and errs:
            kind, val = "err", list(errs)
        elif kind == "err":
            val = list(errs) + val
        got = view(I, l, l.ret, e.local_tys[0])
        got_ok = isinstance(got, dict) and got.get("_v") == "Ok"
        good, why = True, ""
        ck.reach(kind)
        nsel = len([s for s in shape if s[0] == "list"])
        ck.reach("split:%d" % min(nsel, 2))
        if kind == "ok":
            if not got_ok:
                good, why = False, "rejected: %s" % rep(got)[:300]
            else:
                eqs = []
                if not value_eqs(val, got["0"], eqs):
                    good, why = False, "value differs from the merged-list model: %s vs %s" % (rep(got["0"])[:200], val)
                elif eqs:
                    okv, _ = ck.smt_valid(l.pc, z3.And(eqs))
                    if not okv:
                        good, why = False, "field values differ from the merged-list model"
                if good and spec["fwd"] is not None:
                    ga = got["0"].get("attrs")
                    if isinstance(ga, L):
                        n = l.decisions.get(ga.name + "#len", 0)
                        ga = [L("%s[%d]" % (ga.name, i)) for i in range(n)]
                    want = []
                    for b in fwd_expected:
                        cell = l.heap.get(("L", "x*"))
                        want.append(b)
                    if ga is None or len(ga) != len(fwd_expected):
                        good, why = False, "forwarded %s attributes, expected %d (%r)" % (None if ga is None else len(ga), len(fwd_expected), fwd_expected)
                    else:
                        for g, b in zip(ga, fwd_expected):
                            gs = rep(g)
                            if b not in gs:
                                good, why = False, "forwarded attribute %s is not the input attribute %s" % (gs[:120], b)
                    if good:
                        ck.reach("forwarded:%d" % min(len(fwd_expected), 2))
        else:
            if got_ok:
                good, why = False, "accepted although %r" % (val,)
            else:
                good, why = match_errors(val, flat_errors(got["0"], l), l, check_spans=False)
        src, mdl = witness_src(ck, l, spec, rn, shape, uniq)
        req = "(di %s %s)" % (rn, sx_str(src))
        cnt += 1
        do_native = (not good) or cnt % (3 if quick else 7) == 0
        if good:
            ck.ok()
        else:
            ck.obligations += 1
        if not do_native:
            continue
        nat = native.ask(req)
        res = nat.get("result", {}) if isinstance(nat, dict) else {}
        if kind == "ok":
            agree = isinstance(res, dict) and "ok" in res
            if agree and spec["fwd"] is not None:
                agree = len(res["ok"].get("attrs", [])) == len(fwd_expected)
            if agree:
                try:
                    nv = native_value(val, mdl)
                    for k, v in nv.items():
                        if res["ok"].get(k) != v:
                            agree = False
                except ValueError:
                    pass
        else:
            agree = isinstance(res, dict) and "err" in res and len(res["err"]) == len(val)
        if good and agree:
            ck.native_agree += 1
            if len(ck.samples) < 8 and nsel >= 2:
                ck.sample({"receiver": rn, "source": src, "native": res})
        elif good and not agree:
            ck.report("%s:native:%s" % (rn, kind), "native outcome differs from the merged-list model",
                      {"property": "C08", "crate": "hderive", "request": req, "expected": repr((kind, val))[:400], "expected_forwarded": fwd_expected, "observed": nat})
        elif agree:
            ck.engine("%s: %s, but the native run agrees with the model (%s)" % (rn, why, req))
        else:
            ck.report("%s:%s" % (rn, why.split(":")[0][:40]), why, {"property": "C08", "crate": "hderive", "request": req, "expected": repr((kind, val))[:400],
                                                                     "expected_forwarded": fwd_expected, "observed": nat})
    native.close()


def prepare(ck):
    """configure `ck` and return the list of jobs of this property's exploration"""
    ck.crate = "hderive"
    quick = ck.tier == "quick"
    cfgs = [("D0", 2, 1, False), ("D1", 2, 1, False), ("D2", 2, 1, False), ("D3", 2, 1, False), ("A1", 2, 1, False), ("F1", 2, 1, False), ("T1", 2, 1, False)]
    if not quick:
        cfgs = [("D0", 3, 1, True), ("D1", 3, 1, False), ("D2", 2, 2, False), ("D3", 2, 2, False), ("A1", 3, 1, False), ("F1", 2, 1, True), ("T1", 2, 1, True)]
    ck.bounds = {"receivers": [c[0] for c in cfgs], "attributes_per_element": "0..M, M = %s" % {c[0]: c[1] for c in cfgs},
                 "items_per_attribute": "0..K, K = %s" % {c[0]: c[2] for c in cfgs}, "attribute_names": "unbounded strings, 1..2 path segments",
                 "leading_colon_on_attribute_paths": "thorough only"}
    ck.outside = ["attribute paths of more than two segments or with generic arguments (syn's Meta parser produces none)",
                  "FromVariant (same generated extractor; body conversion is C16)", "more attributes / items than the bounds"]
    ck.assumptions = ["attribute bodies parse to an uninterpreted outcome (error or item list)", "leaf conversions are the opaque Opq conversion",
                      "TokenStream printing of a path follows proc-macro2's fallback printer (`a :: b`)"]
    prog = Program(build.dump_mir("hderive", opts=OPTS))
    natbin = build.build_native("hderive")
    jobs = []
    for rn, M, K, colon in cfgs:
        ck.programs.add("hderive::%s" % rn)
        jobs.append(lambda sub, rn=rn, M=M, K=K, colon=colon: job(sub, prog, natbin, rn, M, K, colon, quick))
    return jobs


def main():
    ck = Check("C08")
    ck.run_jobs(prepare(ck))
    ck.require_reached(["ok", "err", "split:2", "split:1", "forwarded:1", "qualified"])
    ck.finish()


if __name__ == "__main__":
    main()
