"""C02 - derived struct receivers (see props/recv_common.py)"""
import os
import sys
sys.path.insert(0, os.path.dirname(os.path.dirname(os.path.abspath(__file__))))
from vlib.prop import Check
from props import recv_common


def main():
    ck = Check("C02")
    recv_common.run(ck, "C02")
    ck.require_reached(["ok", "err"])
    ck.finish()


if __name__ == "__main__":
    main()
