#!/bin/bash
# builds the MIR dump driver (rustc_public, nightly toolchain) offline; everything else is built on demand by the checks
set -e
cd "$(dirname "$0")"
export CARGO_NET_OFFLINE=true
export LD_LIBRARY_PATH="$(rustc +nightly --print sysroot)/lib"
(cd tools/mirdump && cargo +nightly build --offline)
python3-vt -c "import z3; print('z3', z3.get_version_string())"
